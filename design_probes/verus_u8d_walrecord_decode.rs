use vstd::prelude::*;
verus! {

// =====================================================================================
// trusted stand-ins for std::io, byteorder, codeq  (ASSUMED contracts on dependencies)
// =====================================================================================
pub struct FmtOpaque {}
#[verifier::external_body]
pub fn fmt_opaque() -> FmtOpaque { FmtOpaque {} }

pub mod io {
    use vstd::prelude::*;
    #[verifier::external_body]
    pub struct Error { e: std::io::Error }
    #[derive(PartialEq, Eq, Clone, Copy)]
    pub enum ErrorKind { UnexpectedEof, InvalidData, Other }
    impl Error {
        pub uninterp spec fn kind_spec(&self) -> ErrorKind;
        #[verifier::external_body]
        pub fn new(kind: ErrorKind, msg: super::FmtOpaque) -> (e: Error) ensures e.kind_spec() == kind { unimplemented!() }
    }

    /// stand-in for std::io::Read: a cursor over a byte stream
    pub trait Read: Sized {
        /// the whole stream this reader was created over (never changes)
        spec fn origin(&self) -> Seq<u8>;
        /// bytes not yet consumed; always a suffix of origin()
        spec fn rem(&self) -> Seq<u8>;
        /// rem() at the moment this reader value is dropped (prophecy)
        #[verifier::prophetic]
        spec fn after(&self) -> Seq<u8>;
        /// whatever this reader wraps keeps its own after/kept/origin (prophecy)
        #[verifier::prophetic]
        spec fn kept(&self) -> bool;
        proof fn law_resolved(&self)
            ensures has_resolved(*self) ==> self.after() == self.rem() && self.kept();
        proof fn law_suffix(&self)
            ensures self.rem().len() <= self.origin().len(), self.origin().skip(self.origin().len() - self.rem().len()) == self.rem();
    }
    impl<R: Read> Read for &mut R {
        open spec fn origin(&self) -> Seq<u8> { (**self).origin() }
        open spec fn rem(&self) -> Seq<u8> { (**self).rem() }
        #[verifier::prophetic]
        open spec fn after(&self) -> Seq<u8> { (*final(*self)).rem() }
        #[verifier::prophetic]
        open spec fn kept(&self) -> bool {
            &&& (*final(*self)).after() == (**self).after()
            &&& (*final(*self)).kept() == (**self).kept()
            &&& (*final(*self)).origin() == (**self).origin()
        }
        proof fn law_resolved(&self) {
            if has_resolved(*self) {
                assert(*final(*self) == **self);
                assert(self.after() == self.rem());
                assert(self.kept());
            }
        }
        proof fn law_suffix(&self) { (**self).law_suffix(); }
    }
}

use io::Read as _;
use codeq::Decode as _;

pub open spec fn be32(v: u32) -> Seq<u8> { seq![(v >> 24) as u8, (v >> 16) as u8, (v >> 8) as u8, v as u8] }
pub uninterp spec fn be64(v: u64) -> Seq<u8>;
pub uninterp spec fn crc(s: Seq<u8>) -> u64;
pub broadcast axiom fn axiom_be64_len(v: u64) ensures #[trigger] be64(v).len() == 8;

/// consumed prefix of a reader
pub open spec fn consumed<R: io::Read>(r: &R) -> Seq<u8> { r.origin().take(r.origin().len() - r.rem().len()) }

pub struct BigEndian {}
/// byteorder::ReadBytesExt (blanket impl for every io::Read)
pub trait ReadBytesExt: io::Read {
    #[verifier::external_body]
    fn read_u32<B>(&mut self) -> (r: Result<u32, io::Error>)
        ensures
            (*final(self)).after() == (*old(self)).after(), (*final(self)).kept() == (*old(self)).kept(), (*final(self)).origin() == (*old(self)).origin(),
            match r {
                Ok(v) => (*old(self)).rem().len() >= 4 && (*old(self)).rem().take(4) == be32(v) && (*final(self)).rem() == (*old(self)).rem().skip(4),
                Err(e) => (*old(self)).rem().len() < 4 && e.kind_spec() == io::ErrorKind::UnexpectedEof,
            }
    { unimplemented!() }
}
impl<R: io::Read> ReadBytesExt for R {}

pub mod codeq {
    use vstd::prelude::*;
    use super::io;
    pub trait Decode: Sized {
        /// canonical encoding
        spec fn enc(&self) -> Seq<u8>;
        fn decode<R: io::Read>(r: R) -> (res: Result<Self, io::Error>)
            ensures
                match res {
                    Ok(v) => r.kept() && r.rem().len() >= v.enc().len() && r.rem().take(v.enc().len() as int) == v.enc() && r.after() == r.rem().skip(v.enc().len() as int),
                    Err(e) => true,
                };
    }
}

/// codeq::ChecksumReader<Crc32fast, R>
pub struct ChecksumReader<R: io::Read> { pub inner: R, pub org: Ghost<Seq<u8>> }
impl<R: io::Read> io::Read for ChecksumReader<R> {
    open spec fn origin(&self) -> Seq<u8> { self.org@ }
    open spec fn rem(&self) -> Seq<u8> { self.inner.rem() }
    #[verifier::prophetic]
    open spec fn after(&self) -> Seq<u8> { self.inner.after() }
    #[verifier::prophetic]
    open spec fn kept(&self) -> bool { self.inner.kept() }
    proof fn law_resolved(&self) { admit(); /* trusted: dropping the wrapper drops the inner reader */ }
    proof fn law_suffix(&self) { admit(); /* trusted type invariant of the stand-in */ }
}
impl<R: io::Read> ChecksumReader<R> {
    #[verifier::external_body]
    pub fn verify_checksum(self, context: FmtOpaque) -> (r: Result<(), io::Error>)
        ensures match r {
            Ok(()) => self.kept() && self.rem().len() >= 8 && self.rem().take(8) == be64(crc(consumed(&self))) && self.after() == self.rem().skip(8),
            Err(e) => (self.rem().len() < 8 && e.kind_spec() == io::ErrorKind::UnexpectedEof) || (self.rem().len() >= 8 && self.rem().take(8) != be64(crc(consumed(&self))) && e.kind_spec() == io::ErrorKind::InvalidData),
        }
    { unimplemented!() }
}
pub struct Checksum {}
impl Checksum {
    #[verifier::external_body]
    pub fn new_reader<R: io::Read>(r: R) -> (cr: ChecksumReader<R>)
        ensures cr.inner == r, cr.org@ == r.rem()
    { unimplemented!() }
}

// =====================================================================================
// extracted (shape of) WALRecord::decode, 3 of the 6 variants to keep the probe small
// =====================================================================================
pub trait Types: Sized {
    type LogId: codeq::Decode;
    type LogPayload: codeq::Decode;
    type Vote: codeq::Decode;
}
pub enum WALRecord<T: Types> {
    SaveVote(T::Vote),
    Append(T::LogId, T::LogPayload),
    Commit(T::LogId),
}

pub open spec fn body<T: Types>(r: WALRecord<T>) -> Seq<u8> {
    match r {
        WALRecord::SaveVote(v) => be32(0) + v.enc(),
        WALRecord::Append(l, p) => be32(1) + l.enc() + p.enc(),
        WALRecord::Commit(l) => be32(2) + l.enc(),
    }
}

impl<T: Types> codeq::Decode for WALRecord<T> {
    open spec fn enc(&self) -> Seq<u8> { body(*self) + be64(crc(body(*self))) }

    fn decode<R: io::Read>(r: R) -> (res: Result<Self, io::Error>) {
        let mut cr = Checksum::new_reader(r);
        let ghost r0 = r.rem();

        let record_type = cr.read_u32::<BigEndian>()?;
        let ghost s1 = cr.rem();

        let rec = match record_type {
            0 => Self::SaveVote(codeq::Decode::decode(&mut cr)?),
            1 => Self::Append(
                T::LogId::decode(&mut cr)?,
                T::LogPayload::decode(&mut cr)?,
            ),
            2 => Self::Commit(T::LogId::decode(&mut cr)?),

            _ => {
                return Err(io::Error::new(
                    io::ErrorKind::InvalidData,
                    fmt_opaque(),
                ));
            }
        };

        let ghost cr2 = cr;
        proof {
            cr.law_suffix();
            let n = r0.len() - cr.rem().len();
            // what was consumed so far is be32(tag) ++ the field encodings == body(rec)
            assert(r0 =~= r0.take(4) + s1);
            if rec is SaveVote { let v = rec->SaveVote_0; assert(s1 =~= v.enc() + cr.rem()); assert(consumed(&cr) =~= body(rec)); }
            else if rec is Append { let l = rec->Append_0; let p = rec->Append_1; let s2 = s1.skip(l.enc().len() as int); assert(s1 =~= l.enc() + s2); assert(s2 =~= p.enc() + cr.rem()); assert(consumed(&cr) =~= body(rec)); }
            else { let l = rec->Commit_0; assert(s1 =~= l.enc() + cr.rem()); assert(consumed(&cr) =~= body(rec)); }
            assert(r0 =~= body(rec) + cr.rem());
        }
        cr.verify_checksum(fmt_opaque())?;
        proof {
            broadcast use axiom_be64_len;
            let tail = cr2.rem();
            assert(tail =~= tail.take(8) + tail.skip(8));
            assert(r0 =~= rec.enc() + tail.skip(8));
            assert(r0.take(rec.enc().len() as int) =~= rec.enc());
            assert(r0.skip(rec.enc().len() as int) =~= tail.skip(8));
        }

        Ok(rec)
    }
}
}
fn main() {}
