use vstd::prelude::*;
use std::sync::Arc;
use core::marker::PhantomData;
verus! {
global size_of usize == 8;
pub assume_specification<'a, T: Copy>[ Option::<&'a T>::copied ](o: Option<&'a T>) -> (r: Option<T>)
    ensures r == (match o { Some(x) => Some(*x), None => None });
pub struct FmtOpaque {}
#[verifier::external_body] pub fn fmt_opaque() -> FmtOpaque { FmtOpaque {} }
pub mod io {
    use vstd::prelude::*;
    #[verifier::external_body] pub struct Error { e: std::io::Error }
    #[derive(PartialEq, Eq, Clone, Copy)] pub enum ErrorKind { UnexpectedEof, InvalidData, InvalidInput, Other }
    impl Error {
        pub uninterp spec fn kind_spec(&self) -> ErrorKind;
        #[verifier::external_body] pub fn new(kind: ErrorKind, msg: super::FmtOpaque) -> (e: Error) ensures e.kind_spec() == kind { unimplemented!() }
        #[verifier::external_body] pub fn kind(&self) -> (k: ErrorKind) ensures k == self.kind_spec() { unimplemented!() }
    }
}
#[verifier::external_body] pub struct File { f: std::fs::File }
pub struct Metadata { pub l: u64 }
impl Metadata { pub fn len(&self) -> (r: u64) ensures r == self.l { self.l } }
impl File {
    pub uninterp spec fn content(&self) -> Seq<u8>;
    #[verifier::external_body] pub fn metadata(&self) -> (r: Result<Metadata, io::Error>) ensures r is Ok ==> r->Ok_0.l == self.content().len() { unimplemented!() }
    #[verifier::external_body] pub fn set_len(&self, l: u64) -> Result<(), io::Error> { unimplemented!() }
    #[verifier::external_body] pub fn sync_all(&self) -> Result<(), io::Error> { unimplemented!() }
}
#[derive(Clone, Copy)] pub struct ChunkId(pub u64);
impl ChunkId { pub fn offset(&self) -> (r: u64) ensures r == self.0 { self.0 } }
#[derive(Clone, Copy)] pub struct Segment { pub offset: u64, pub size: u64 }
impl Segment { pub fn end(&self) -> (r: u64) requires self.offset + self.size <= u64::MAX ensures r == self.offset + self.size { self.offset + self.size } }
pub struct Config { pub truncate_incomplete_record: Option<bool> }
impl Config {
    pub open spec fn can_trunc(&self) -> bool { match self.truncate_incomplete_record { Some(b) => b, None => true } }
    pub fn truncate_incomplete_record(&self) -> (r: bool) ensures r == self.can_trunc() { self.truncate_incomplete_record.unwrap_or(true) } }
pub struct Rec {}
pub struct RecordIterator { pub pos: u64 }
impl RecordIterator {
    #[verifier::external_body]
    pub fn next(&mut self) -> (o: Option<Result<(Segment, Rec), io::Error>>)
        ensures o is Some && o->Some_0 is Ok ==> (o->Some_0->Ok_0).0.offset + (o->Some_0->Ok_0).0.size <= u64::MAX / 2
    { unimplemented!() }
}
#[verifier::external_body] pub fn open_chunk_file(config: &Config, chunk_id: ChunkId) -> Result<File, io::Error> { unimplemented!() }
#[verifier::external_body] pub fn load_records_iter(config: &Config, f: Arc<File>, chunk_id: ChunkId) -> Result<RecordIterator, io::Error> { unimplemented!() }

pub struct Chunk {
    pub f: Arc<File>,
    pub global_offsets: Vec<u64>,
    pub truncated: Option<u64>,
}

impl Chunk {
    pub fn open(
        config: Arc<Config>,
        chunk_id: ChunkId,
    ) -> (r: Result<(Self, Vec<Rec>), io::Error>)
        requires chunk_id.0 <= u64::MAX / 2
        ensures r is Ok ==> (r->Ok_0).0.global_offsets@.len() == (r->Ok_0).1@.len() + 1
    {
        let f = open_chunk_file(&config, chunk_id)?;
        let arc_f = Arc::new(f);
        let file_size = arc_f.metadata()?.len();
        let it = load_records_iter(&config, arc_f.clone(), chunk_id)?;

        let mut record_offsets = vec![chunk_id.offset()];
        let mut records = Vec::new();
        let mut truncate = false;

        // E7: for res in it
        let mut it = it;
        loop
            invariant record_offsets@.len() == records@.len() + 1,
                forall|i: int| 0 <= i < record_offsets@.len() ==> chunk_id.0 <= #[trigger] record_offsets@[i],
            decreases 0int   // placeholder: termination comes from RecordIterator's contract
        {
            let Some(res) = it.next() else { break; };
            match res {
                Ok((seg, record)) => {
                    record_offsets.push(chunk_id.offset() + seg.end());
                    records.push(record);
                }
                Err(io_err) => {
                    let global_offset = record_offsets.last().copied().unwrap();
                    truncate = Self::handle_record_error(
                        io_err,
                        arc_f.clone(),
                        global_offset,
                        chunk_id,
                        &config,
                    )?;
                    break;
                }
            };
        }

        let truncated = if truncate {
            arc_f
                .set_len(*record_offsets.last().unwrap() - chunk_id.offset())?;
            arc_f.sync_all()?;
            Some(file_size)
        } else {
            None
        };

        let chunk = Self {
            f: arc_f,
            global_offsets: record_offsets,
            truncated,
        };

        Ok((chunk, records))
    }

    fn handle_record_error(
        io_err: io::Error,
        file: Arc<File>,
        global_offset: u64,
        chunk_id: ChunkId,
        config: &Config,
    ) -> (r: Result<bool, io::Error>)
        requires global_offset >= chunk_id.0
        ensures
            // decision table of C09/C10
            io_err.kind_spec() == io::ErrorKind::UnexpectedEof ==> (if config.can_trunc() { r == Ok::<bool, io::Error>(true) } else { r is Err }),
            r is Ok ==> r->Ok_0 == true && config.can_trunc(),
    {
        let at = fmt_opaque();
        ();

        let can_truncate = config.truncate_incomplete_record();

        // UnexpectedEof: incomplete record, can truncate if enabled
        if io_err.kind() == io::ErrorKind::UnexpectedEof {
            if can_truncate {
                ();
                return Ok(true);
            }
            ();
            return Err(io_err);
        }

        let all_zero = Self::verify_trailing_zeros(
            file,
            global_offset - chunk_id.offset(),
            chunk_id,
        )?;

        if all_zero && can_truncate {
            ();
            return Ok(true);
        }

        if all_zero {
            ();
        } else {
            ();
        }
        Err(io_err)
    }

    #[verifier::external_body]
    fn verify_trailing_zeros(file: Arc<File>, start_offset: u64, chunk_id: ChunkId) -> Result<bool, io::Error> { unimplemented!() }
}
}
fn main() {}
