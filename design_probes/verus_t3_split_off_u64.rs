#![feature(allocator_api)]
use vstd::prelude::*;
use vstd::std_specs::cmp::*;
use vstd::laws_cmp::*;
use vstd::laws_eq::*;
use vstd::std_specs::btree::*;
use std::collections::BTreeMap;
use core::cmp::Ordering;
use core::alloc::Allocator;
use core::borrow::Borrow;
verus! {

/// how a borrowed lookup key compares with a map key (only axiomatised for Q == K)
pub uninterp spec fn borrow_cmp<K, Q: ?Sized>(k: K, q: &Q) -> Ordering;

pub broadcast axiom fn axiom_borrow_cmp_same<K: Ord>(k: K, q: &K)
    ensures #[trigger] borrow_cmp::<K, K>(k, q) == k.cmp_spec(q);

pub assume_specification<K, V, A: Allocator + Clone, Q: ?Sized + Ord>[ BTreeMap::<K, V, A>::split_off::<Q> ](m: &mut BTreeMap<K, V, A>, key: &Q) -> (r: BTreeMap<K, V, A>)
    where K: Borrow<Q> + Ord, A: Clone
    ensures
        obeys_cmp::<K>() ==> {
            &&& forall|k: K| #[trigger] final(m)@.contains_key(k) <==> old(m)@.contains_key(k) && borrow_cmp::<K, Q>(k, key) == Ordering::Less
            &&& forall|k: K| #[trigger] r@.contains_key(k) <==> old(m)@.contains_key(k) && borrow_cmp::<K, Q>(k, key) != Ordering::Less
            &&& forall|k: K| final(m)@.contains_key(k) ==> #[trigger] final(m)@[k] == old(m)@[k]
            &&& forall|k: K| r@.contains_key(k) ==> #[trigger] r@[k] == old(m)@[k]
        }
    ;

fn t(m: &mut BTreeMap<u64, u64>, index: u64)
    ensures forall|k: u64| final(m)@.contains_key(k) <==> old(m)@.contains_key(k) && k >= index
{
    broadcast use axiom_borrow_cmp_same;
    let b = m.split_off(&index);
    *m = b;
}
}
fn main() {}
