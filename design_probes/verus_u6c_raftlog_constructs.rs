use vstd::prelude::*;
use std::collections::BTreeMap;
verus! {
pub struct E {}
pub struct C { pub start: u64, pub truncated: Option<u64> }

fn f1(removed_chunks: &mut Vec<String>) -> Vec<String> {
    let chunk_ids = removed_chunks.drain(..).collect::<Vec<_>>();
    chunk_ids
}
fn f2(closed_chunks: &mut BTreeMap<u64, C>) -> Option<C> {
    {
        let (_chunk_id, closed) = closed_chunks.iter().last()?;
        if closed.truncated.is_some() {
            return None;
        }
    }
    let (_chunk_id, last) = closed_chunks.pop_last().unwrap();
    Some(last)
}
fn f3(closed: &BTreeMap<u64, C>, open_start: u64) -> u64 {
    let first_closed_start = closed
        .first_key_value()
        .map(|__p| { let (_, v) = __p; v.start })
        .unwrap_or(open_start);
    first_closed_start
}
fn f4(log: &BTreeMap<u64, C>, index: u64) -> Result<u64, E> {
    let entry = log
        .get(&index)
        .ok_or_else(|| E {})?;
    Ok(entry.start)
}
fn f5<I>(entries: I) -> u64 where I: IntoIterator<Item = (u64, u64)> {
    let mut s = 0u64;
    for (log_id, payload) in entries {
        s = log_id;
    }
    s
}
}
fn main() {}
