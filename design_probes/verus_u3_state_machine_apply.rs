#![feature(allocator_api)]
use vstd::prelude::*;
use vstd::std_specs::cmp::*;
use vstd::laws_cmp::*;
use vstd::laws_eq::*;
use vstd::std_specs::btree::*;
use std::collections::BTreeMap;
use core::cmp::Ordering;
use core::alloc::Allocator;
use core::borrow::Borrow;
verus! {

global size_of usize == 8;

pub trait Types: Sized {
    type LogId: Clone + Ord + Eq;
    type Vote: Clone + PartialOrd + Eq;
    type UserData: Clone + Eq;
    type LogPayload: Clone;
    spec fn spec_log_index(log_id: &Self::LogId) -> u64;
    spec fn spec_payload_size(payload: &Self::LogPayload) -> u64;
    fn log_index(log_id: &Self::LogId) -> (r: u64) ensures r == Self::spec_log_index(log_id);
    fn payload_size(payload: &Self::LogPayload) -> (r: u64) ensures r == Self::spec_payload_size(payload);
    fn next_log_index(log_id: Option<&Self::LogId>) -> (r: u64)
        requires log_id is Some ==> Self::spec_log_index(log_id.unwrap()) < u64::MAX
        ensures r == (match log_id { Some(l) => (Self::spec_log_index(l) + 1) as u64, None => 0u64 })
    {
        match log_id {
            Some(log_id) => Self::log_index(log_id) + 1,
            None => 0,
        }
    }
}

pub open spec fn le<K: Ord>(a: K, b: K) -> bool { a.cmp_spec(&b) != Ordering::Greater }
pub open spec fn lt<K: Ord>(a: K, b: K) -> bool { a.cmp_spec(&b) == Ordering::Less }
pub open spec fn le_opt<K: Ord>(k: K, bound: Option<K>) -> bool { match bound { Some(b) => le(k, b), None => false } }
pub open spec fn clone_eq<A: Clone>() -> bool { forall|a: &A, b: A| #[trigger] call_ensures(A::clone, (a,), b) ==> *a == b }
pub open spec fn laws<T: Types>() -> bool { obeys_cmp::<T::LogId>() && clone_eq::<T::LogId>() && clone_eq::<T::LogPayload>() }
pub open spec fn idx<T: Types>(l: T::LogId) -> u64 { T::spec_log_index(&l) }
pub open spec fn onext<T: Types>(l: Option<T::LogId>) -> int { match l { Some(l) => idx::<T>(l) + 1, None => 0 } }

pub proof fn lemma_le_trans<K: Ord>(a: K, b: K, c: K)
    requires obeys_cmp::<K>(), le(a, b), le(b, c) ensures le(a, c)
{ reveal(obeys_cmp); reveal(obeys_cmp_partial_ord); reveal(obeys_cmp_ord); reveal(obeys_partial_cmp_spec_properties); reveal(obeys_eq_spec_properties); }
pub proof fn lemma_le_lt<K: Ord>(a: K, b: K, c: K)
    requires obeys_cmp::<K>(), le(a, b), lt(b, c) ensures lt(a, c), a != c
{ reveal(obeys_cmp); reveal(obeys_cmp_partial_ord); reveal(obeys_cmp_ord); reveal(obeys_partial_cmp_spec_properties); reveal(obeys_eq_spec_properties); }
pub proof fn lemma_total<K: Ord>(a: K, b: K)
    requires obeys_cmp::<K>() ensures le(a, b) || lt(b, a), lt(a, b) ==> le(a, b), !(lt(a, b) && le(b, a)), le(a, a)
{ reveal(obeys_cmp); reveal(obeys_cmp_partial_ord); reveal(obeys_cmp_ord); reveal(obeys_partial_cmp_spec_properties); reveal(obeys_eq_spec_properties); }

// ---------------- assumed std contracts ----------------
pub uninterp spec fn borrow_cmp<K, Q: ?Sized>(k: K, q: &Q) -> Ordering;
pub broadcast axiom fn axiom_borrow_cmp_same<K: Ord>(k: K, q: &K)
    ensures #[trigger] borrow_cmp::<K, K>(k, q) == k.cmp_spec(q);
pub assume_specification<K, V, A: Allocator + Clone, Q: ?Sized + Ord>[ BTreeMap::<K, V, A>::split_off::<Q> ](m: &mut BTreeMap<K, V, A>, key: &Q) -> (r: BTreeMap<K, V, A>)
    where K: Borrow<Q> + Ord, A: Clone
    ensures
        obeys_cmp::<K>() ==> {
            &&& forall|k: K| #[trigger] final(m)@.contains_key(k) <==> old(m)@.contains_key(k) && borrow_cmp::<K, Q>(k, key) == Ordering::Less
            &&& forall|k: K| #[trigger] r@.contains_key(k) <==> old(m)@.contains_key(k) && borrow_cmp::<K, Q>(k, key) != Ordering::Less
            &&& forall|k: K| final(m)@.contains_key(k) ==> #[trigger] final(m)@[k] == old(m)@[k]
            &&& forall|k: K| r@.contains_key(k) ==> #[trigger] r@[k] == old(m)@[k]
        };

// ---------------- items proved in their home units, assumed here (contract text identical) ----------------
pub struct RaftLogState<T: Types> {
    pub vote: Option<T::Vote>,
    pub last: Option<T::LogId>,
    pub committed: Option<T::LogId>,
    pub purged: Option<T::LogId>,
    pub user_data: Option<T::UserData>,
}
pub enum WALRecord<T: Types> {
    SaveVote(T::Vote),
    Append(T::LogId, T::LogPayload),
    Commit(T::LogId),
    TruncateAfter(Option<T::LogId>),
    PurgeUpto(T::LogId),
    State(RaftLogState<T>),
}
pub struct StateError {}

pub open spec fn omax<K: Ord>(a: Option<K>, b: K) -> Option<K> { if le_opt(b, a) { a } else { Some(b) } }

/// accepted-by-the-reference predicate, restricted to the fields the index/cache logic depends on
pub open spec fn accepts_last<T: Types>(st: RaftLogState<T>, rec: WALRecord<T>) -> bool {
    match rec {
        WALRecord::Append(id, _) => !le_opt(id, st.last) && (st.last is Some ==> onext::<T>(st.last) == idx::<T>(id)),
        _ => true,
    }
}
pub open spec fn last_after<T: Types>(st: RaftLogState<T>, rec: WALRecord<T>) -> Option<T::LogId> {
    match rec {
        WALRecord::Append(id, _) => Some(id),
        WALRecord::TruncateAfter(prev) => match prev { None => None, Some(p) => if st.last is Some && lt(p, st.last.unwrap()) { Some(p) } else { st.last } },
        WALRecord::PurgeUpto(u) => omax(st.last, u),
        WALRecord::State(s) => s.last,
        _ => st.last,
    }
}
impl<T: Types> RaftLogState<T> {
    #[verifier::external_body]
    pub fn apply(&mut self, rec: &WALRecord<T>) -> (r: Result<(), StateError>)
        requires laws::<T>(),
        ensures
            accepts_last(*old(self), *rec) ==> (r is Ok || !(rec is Append)),
            r is Ok ==> final(self).last == last_after(*old(self), *rec),
            r is Err ==> *final(self) == *old(self),
    { unimplemented!() }
}

pub struct ChunkId(pub u64);
pub struct Segment { pub offset: u64, pub size: u64 }
pub struct LogData<T: Types> { pub log_id: T::LogId, pub chunk_id: ChunkId, pub record_segment: Segment }
impl<T: Types> LogData<T> {
    pub fn new(log_id: T::LogId, chunk_id: ChunkId, record_segment: Segment) -> (r: Self)
        ensures r.log_id == log_id, r.chunk_id == chunk_id, r.record_segment == record_segment
    { Self { log_id, chunk_id, record_segment } }
}

pub struct PayloadCache<T: Types> {
    pub max_items: usize,
    pub capacity: usize,
    pub size: usize,
    pub cache: BTreeMap<T::LogId, T::LogPayload>,
    pub last_evictable: Option<T::LogId>,
}
pub uninterp spec fn cache_inv<T: Types>(c: PayloadCache<T>) -> bool;   // Inv_Cache, opaque in this unit
impl<T: Types> PayloadCache<T> {
    pub open spec fn sub_of(&self, o: &Self) -> bool {
        forall|k: T::LogId| #[trigger] self.cache@.contains_key(k) ==> o.cache@.contains_key(k) && self.cache@[k] == o.cache@[k]
    }
    #[verifier::external_body]
    pub fn insert(&mut self, key: T::LogId, value: T::LogPayload)
        requires cache_inv(*old(self)), obeys_cmp::<T::LogId>(), !old(self).cache@.contains_key(key),
            old(self).size + T::spec_payload_size(&value) <= usize::MAX,
        ensures cache_inv(*final(self)),
            forall|k: T::LogId| #[trigger] final(self).cache@.contains_key(k) ==> (k == key && final(self).cache@[k] == value) || (old(self).cache@.contains_key(k) && final(self).cache@[k] == old(self).cache@[k]),
    { unimplemented!() }
    #[verifier::external_body]
    pub fn truncate_after(&mut self, key: &T::LogId)
        requires cache_inv(*old(self)), obeys_cmp::<T::LogId>(),
        ensures cache_inv(*final(self)), final(self).sub_of(old(self)),
            forall|k: T::LogId| #[trigger] old(self).cache@.contains_key(k) ==> (final(self).cache@.contains_key(k) <==> le(k, *key)),
    { unimplemented!() }
    #[verifier::external_body]
    pub fn purge_upto(&mut self, key: &T::LogId)
        requires cache_inv(*old(self)), obeys_cmp::<T::LogId>(),
        ensures cache_inv(*final(self)), final(self).sub_of(old(self)),
    { unimplemented!() }
    #[verifier::external_body]
    pub fn clear(&mut self)
        ensures cache_inv(*final(self)), final(self).cache@ == Map::<T::LogId, T::LogPayload>::empty(),
    { unimplemented!() }
}

// ---------------- the unit under proof ----------------
pub struct RaftLogStateMachine<T: Types> {
    pub log: BTreeMap<u64, LogData<T>>,
    pub payload_cache: PayloadCache<T>,          // E6
    pub log_state: RaftLogState<T>,
}

impl<T: Types> RaftLogStateMachine<T> {
    pub open spec fn inv(&self) -> bool {
        let last = self.log_state.last;
        &&& cache_inv(self.payload_cache)
        // I1
        &&& forall|i: u64| #[trigger] self.log@.contains_key(i) ==> idx::<T>(self.log@[i].log_id) == i
        // I2
        &&& forall|i: u64, j: u64| #[trigger] self.log@.contains_key(i) && #[trigger] self.log@.contains_key(j) && i < j ==> lt(self.log@[i].log_id, self.log@[j].log_id)
        // I3 + I4'
        &&& forall|i: u64| #[trigger] self.log@.contains_key(i) ==> le_opt(self.log@[i].log_id, last) && i <= idx::<T>(last.unwrap())
        // I7
        &&& forall|k: T::LogId| #[trigger] self.payload_cache.cache@.contains_key(k) ==> le_opt(k, last)
    }

    /// legality of the record w.r.t. the live entries (established by RaftLog::truncate; a Raft-legal purge satisfies it)
    pub open spec fn legal(&self, rec: WALRecord<T>) -> bool {
        match rec {
            WALRecord::TruncateAfter(Some(p)) => idx::<T>(p) < u64::MAX && forall|i: u64| #[trigger] self.log@.contains_key(i) ==> (i <= idx::<T>(p) <==> le(self.log@[i].log_id, p)),
            WALRecord::PurgeUpto(u) => idx::<T>(u) < u64::MAX && forall|i: u64| #[trigger] self.log@.contains_key(i) ==> (i <= idx::<T>(u) <==> le(self.log@[i].log_id, u)),
            WALRecord::Append(id, p) => self.payload_cache.size + T::spec_payload_size(&p) <= usize::MAX,
            WALRecord::State(s) => s.last == self.log_state.last,
            _ => true,
        }
    }

    pub fn apply(&mut self, rec: &WALRecord<T>, chunk_id: ChunkId, segment: Segment) -> (r: Result<(), StateError>)
        requires old(self).inv(), laws::<T>(), accepts_last(old(self).log_state, *rec), old(self).legal(*rec),
            old(self).log_state.last is Some ==> idx::<T>(old(self).log_state.last.unwrap()) < u64::MAX,
        ensures
            r is Ok ==> final(self).inv(),
            // the index map is the reference step
            r is Ok ==> match *rec {
                WALRecord::Append(id, p) => final(self).log@ == old(self).log@.insert(idx::<T>(id), LogData { log_id: id, chunk_id, record_segment: segment }),
                WALRecord::TruncateAfter(prev) => forall|i: u64| #[trigger] final(self).log@.contains_key(i) <==> old(self).log@.contains_key(i) && i < onext::<T>(prev),
                WALRecord::PurgeUpto(u) => forall|i: u64| #[trigger] final(self).log@.contains_key(i) <==> old(self).log@.contains_key(i) && i > idx::<T>(u),
                _ => final(self).log@ == old(self).log@,
            },
    {
        broadcast use {axiom_borrow_cmp_same, group_btree_axioms};
        match rec {
            WALRecord::SaveVote(_vote) => {}
            WALRecord::Append(log_id, payload) => {
                proof {
                    assert forall|k: T::LogId| #[trigger] self.payload_cache.cache@.contains_key(k) implies k != *log_id by {
                        lemma_total::<T::LogId>(*log_id, self.log_state.last.unwrap());
                        lemma_le_lt::<T::LogId>(k, self.log_state.last.unwrap(), *log_id);
                    }
                }
                self.log.insert(
                    T::log_index(log_id),
                    LogData::new(log_id.clone(), chunk_id, segment),
                );
                self.payload_cache
                    .insert(log_id.clone(), payload.clone());
                proof {
                    let nl = Some(*log_id);
                    let ol = old(self).log_state.last;
                    assert(last_after(old(self).log_state, *rec) == nl);
                    lemma_total::<T::LogId>(*log_id, *log_id);
                    // every old live id and cached key is <= old last < new id
                    assert forall|i: u64| #[trigger] self.log@.contains_key(i) implies le_opt(self.log@[i].log_id, nl) && i <= idx::<T>(*log_id) by {
                        if i != idx::<T>(*log_id) {
                            lemma_total::<T::LogId>(*log_id, ol.unwrap());
                            lemma_le_lt::<T::LogId>(self.log@[i].log_id, ol.unwrap(), *log_id);
                        }
                    }
                    assert forall|i: u64, j: u64| #[trigger] self.log@.contains_key(i) && #[trigger] self.log@.contains_key(j) && i < j implies lt(self.log@[i].log_id, self.log@[j].log_id) by {
                        if j == idx::<T>(*log_id) {
                            lemma_total::<T::LogId>(*log_id, ol.unwrap());
                            lemma_le_lt::<T::LogId>(self.log@[i].log_id, ol.unwrap(), *log_id);
                        }
                    }
                    assert forall|k: T::LogId| #[trigger] self.payload_cache.cache@.contains_key(k) implies le_opt(k, nl) by {
                        if k != *log_id {
                            lemma_total::<T::LogId>(*log_id, ol.unwrap());
                            lemma_le_lt::<T::LogId>(k, ol.unwrap(), *log_id);
                        }
                    }
                }
            }
            WALRecord::Commit(_committed) => {}
            WALRecord::TruncateAfter(log_id) => {
                let index = T::next_log_index(log_id.as_ref());
                self.log.split_off(&index);
                if let Some(log_id) = log_id {
                    self.payload_cache.truncate_after(log_id);
                } else {
                    self.payload_cache.clear();
                }
                proof {
                    let ol = old(self).log_state.last;
                    let nl = last_after(old(self).log_state, *rec);
                    if log_id is Some {
                        let p = log_id.unwrap();
                        if ol is Some { lemma_total::<T::LogId>(p, ol.unwrap()); }
                        assert forall|i: u64| #[trigger] self.log@.contains_key(i) implies le_opt(self.log@[i].log_id, nl) && i <= idx::<T>(nl.unwrap()) by {
                            assert(old(self).log@.contains_key(i));
                        }
                        assert forall|k: T::LogId| #[trigger] self.payload_cache.cache@.contains_key(k) implies le_opt(k, nl) by {
                            assert(old(self).payload_cache.cache@.contains_key(k));
                        }
                    }
                }
            }
            WALRecord::PurgeUpto(log_id) => {
                let index = T::next_log_index(Some(log_id));
                let b = self.log.split_off(&index);
                self.log = b;

                self.payload_cache.purge_upto(log_id);
                proof {
                    let ol = old(self).log_state.last;
                    let nl = last_after(old(self).log_state, *rec);
                    let u = *log_id;
                    if ol is Some { lemma_total::<T::LogId>(u, ol.unwrap()); lemma_total::<T::LogId>(ol.unwrap(), u); }
                    assert forall|i: u64| #[trigger] self.log@.contains_key(i) implies le_opt(self.log@[i].log_id, nl) && i <= idx::<T>(nl.unwrap()) by {
                        assert(old(self).log@.contains_key(i));
                        if !le_opt(u, ol) {
                            // everything live is <= old last < u, hence (legality) has index <= idx(u): contradiction with i > idx(u)
                            lemma_le_lt::<T::LogId>(old(self).log@[i].log_id, ol.unwrap(), u);
                            lemma_total::<T::LogId>(old(self).log@[i].log_id, u);
                        }
                    }
                    assert forall|k: T::LogId| #[trigger] self.payload_cache.cache@.contains_key(k) implies le_opt(k, nl) by {
                        assert(old(self).payload_cache.cache@.contains_key(k));
                        if !le_opt(u, ol) {
                            lemma_le_lt::<T::LogId>(k, ol.unwrap(), u);
                            lemma_total::<T::LogId>(k, u);
                        }
                    }
                }
            }
            WALRecord::State(_st) => {}
        }

        self.log_state.apply(rec)
    }
}
}
fn main() {}
