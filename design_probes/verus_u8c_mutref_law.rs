use vstd::prelude::*;
verus! {
    pub trait Read: Sized {
        spec fn rem(&self) -> Seq<u8>;
        #[verifier::prophetic]
        spec fn after(&self) -> Seq<u8>;
        #[verifier::prophetic]
        spec fn kept(&self) -> bool;
        proof fn law_resolved(&self) ensures has_resolved(*self) ==> self.after() == self.rem() && self.kept();
    }
    impl<R: Read> Read for &mut R {
        open spec fn rem(&self) -> Seq<u8> { (**self).rem() }
        #[verifier::prophetic]
        open spec fn after(&self) -> Seq<u8> { (*final(*self)).rem() }
        #[verifier::prophetic]
        open spec fn kept(&self) -> bool { (*final(*self)).after() == (**self).after() && (*final(*self)).kept() == (**self).kept() }
        proof fn law_resolved(&self) { 
            if has_resolved(*self) {
                assert(*final(*self) == **self);
                assert(self.after() == self.rem());
                assert(self.kept());
            }
        }
    }
}
fn main() {}
