use vstd::prelude::*;
verus! {
pub struct FmtOpaque {}
#[verifier::external_body]
pub fn fmt_opaque() -> FmtOpaque { FmtOpaque {} }
#[verifier::external_body]
pub struct IoError { e: std::io::Error }
#[derive(PartialEq, Eq, Clone, Copy)]
pub enum ErrorKind { UnexpectedEof, InvalidData, Other }
impl IoError {
    pub uninterp spec fn kind_spec(&self) -> ErrorKind;
    #[verifier::external_body]
    pub fn new(kind: ErrorKind, msg: FmtOpaque) -> (e: IoError) ensures e.kind_spec() == kind { unimplemented!() }
    #[verifier::external_body]
    pub fn kind(&self) -> (k: ErrorKind) ensures k == self.kind_spec() { unimplemented!() }
    #[verifier::external_body]
    pub fn to_string(&self) -> FmtOpaque { FmtOpaque {} }
}
/// codeq::error_context_ext::ErrorContextExt for Result<T, io::Error>: keeps Ok, keeps the error kind
pub trait ErrorContextExt: Sized { fn context(self, ctx: FmtOpaque) -> Self; }
impl<T> ErrorContextExt for Result<T, IoError> {
    #[verifier::external_body]
    fn context(self, ctx: FmtOpaque) -> (r: Self)
        ensures self is Ok ==> r == self, self is Err ==> r is Err && r->Err_0.kind_spec() == self->Err_0.kind_spec()
    { unimplemented!() }
}

pub struct Segment { pub offset: u64, pub size: u64 }
impl Segment { pub fn new(offset: u64, size: u64) -> (s: Self) ensures s.offset == offset, s.size == size { Segment { offset, size } } }
pub struct Rec { pub x: u8 }
pub struct Rd { pub off: usize }
impl Rd {
    pub fn offset(&self) -> (r: usize) ensures r == self.off { self.off }
}
#[verifier::external_body]
pub fn decode(r: &mut Rd) -> (res: Result<Rec, IoError>)
    ensures res is Ok ==> final(r).off >= old(r).off, res is Err ==> final(r).off >= old(r).off
{ unimplemented!() }

pub struct RecordIterator {
    pub r: Rd,
    pub total_size: u64,
    pub error: Option<IoError>,
}

impl RecordIterator {
    fn next(&mut self) -> (out: Option<Result<(Segment, Rec), IoError>>)
        ensures
            old(self).error is Some ==> out is None,
            old(self).error is None && old(self).r.off as u64 == old(self).total_size ==> out is None,
            out is Some && out->Some_0 is Ok ==> (out->Some_0->Ok_0).0.offset == old(self).r.off && (out->Some_0->Ok_0).0.size == final(self).r.off - old(self).r.off,
            out is Some && out->Some_0 is Err ==> final(self).error is Some,
    {
        if self.error.is_some() {
            return None;
        }

        let start = self.r.offset();
        if start as u64 == self.total_size {
            return None;
        }

        let r = decode(&mut self.r);

        let res = r
            .map(|r: Rec| -> (o: (Segment, Rec)) requires self.r.off >= start ensures o.0.offset == start as u64, o.0.size == (self.r.off - start) as u64, o.1 == r {
                (
                    Segment::new(
                        start as u64,
                        (self.r.offset() - start) as u64,
                    ),
                    r,
                )
            })
            .context(fmt_opaque())
            .context(fmt_opaque());

        if let Err(ref e) = res {
            self.error = Some(IoError::new(e.kind(), e.to_string()));
        }

        Some(res)
    }
}
}
fn main() {}
