use vstd::prelude::*;
verus! {

pub trait Rd: Sized { 
    spec fn remaining(&self) -> Seq<u8>;
    #[verifier::prophetic]
    spec fn after(&self) -> Seq<u8>;

    proof fn law_resolved(&self)
        ensures has_resolved(*self) ==> self.after() == self.remaining();

    fn rd_u8(&mut self) -> (r: Result<u8, ()>)
        ensures
            (*final(self)).after() == (*old(self)).after(),
            (*old(self)).remaining().len() > 0 ==> r == Ok::<u8,()>((*old(self)).remaining()[0]) && (*final(self)).remaining() == (*old(self)).remaining().skip(1),
            (*old(self)).remaining().len() == 0 ==> r is Err && (*final(self)).remaining() == (*old(self)).remaining();
}

impl<R: Rd> Rd for &mut R {
    open spec fn remaining(&self) -> Seq<u8> { (**self).remaining() }
    #[verifier::prophetic]
    open spec fn after(&self) -> Seq<u8> { (*final(*self)).remaining() }
    proof fn law_resolved(&self) {}
    fn rd_u8(&mut self) -> (r: Result<u8, ()>)
    {
        (**self).rd_u8()
    }
}

pub fn dec_u8<R: Rd>(mut r: R) -> (res: Result<u8, ()>) 
    ensures r.remaining().len() > 0 ==> res == Ok::<u8,()>(r.remaining()[0]) && r.after() == r.remaining().skip(1),
{
    let v = r.rd_u8()?;
    proof { r.law_resolved(); }
    Ok(v)
}

pub struct SliceRd { pub s: Vec<u8>, pub pos: usize }
impl Rd for SliceRd {
    open spec fn remaining(&self) -> Seq<u8> { if self.pos <= self.s.len() { self.s@.skip(self.pos as int) } else { Seq::empty() } }
    #[verifier::prophetic]
    open spec fn after(&self) -> Seq<u8> { arbitrary() }
    proof fn law_resolved(&self) { admit(); }
    fn rd_u8(&mut self) -> (r: Result<u8, ()>)
    {
        if self.pos < self.s.len() { let v = self.s[self.pos]; self.pos += 1; Ok(v) } else { Err(()) }
    }
}
pub fn top(orr: &mut SliceRd) -> (res: Result<u8, ()>) 
   ensures (*old(orr)).remaining().len() > 0 ==> (*final(orr)).remaining() == (*old(orr)).remaining().skip(1) && res == Ok::<u8,()>((*old(orr)).remaining()[0])
{
    dec_u8(&mut *orr)
}
pub fn top_bad(orr: &mut SliceRd) -> (res: Result<u8, ()>) 
   ensures (*old(orr)).remaining().len() > 0 ==> (*final(orr)).remaining() == (*old(orr)).remaining().skip(2)
{
    dec_u8(&mut *orr)
}
}
fn main() {}
