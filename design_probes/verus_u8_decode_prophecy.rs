use vstd::prelude::*;
verus! {

// ---------- trusted stand-ins for std::io / byteorder / codeq (assumed contracts) ----------
pub mod io {
    use vstd::prelude::*;
    #[verifier::external_body]
    pub struct Error { e: std::io::Error }
    #[derive(PartialEq, Eq, Clone, Copy)]
    pub enum ErrorKind { UnexpectedEof, InvalidData, Other }
    impl Error {
        pub uninterp spec fn kind_spec(&self) -> ErrorKind;
    }

    /// stand-in for std::io::Read: a reader is a cursor over a byte stream
    pub trait Read: Sized {
        /// bytes not yet consumed
        spec fn rem(&self) -> Seq<u8>;
        /// bytes left unconsumed once this reader value is dropped (prophecy)
        #[verifier::prophetic]
        spec fn after(&self) -> Seq<u8>;
        /// whatever this reader wraps keeps its own `after`/`kept` (prophecy)
        #[verifier::prophetic]
        spec fn kept(&self) -> bool;
        proof fn law_resolved(&self) ensures has_resolved(*self) ==> self.after() == self.rem() && self.kept();
    }
    impl<R: Read> Read for &mut R {
        open spec fn rem(&self) -> Seq<u8> { (**self).rem() }
        #[verifier::prophetic]
        open spec fn after(&self) -> Seq<u8> { (*final(*self)).rem() }
        #[verifier::prophetic]
        open spec fn kept(&self) -> bool { (*final(*self)).after() == (**self).after() && (*final(*self)).kept() == (**self).kept() }
        proof fn law_resolved(&self) { broadcast use vstd::group_vstd_default; }
    }
}

pub mod codeq {
    use vstd::prelude::*;
    use super::io;
    pub trait Decode: Sized {
        /// canonical encoding
        spec fn enc(&self) -> Seq<u8>;
        fn decode<R: io::Read>(r: R) -> (res: Result<Self, io::Error>)
            ensures
                match res {
                    Ok(v) => r.kept() && r.rem().len() >= v.enc().len() && r.rem().take(v.enc().len() as int) == v.enc() && r.after() == r.rem().skip(v.enc().len() as int),
                    Err(e) => true,
                };
    }
}

pub struct RaftLogState<V: codeq::Decode, L: codeq::Decode> {
    pub vote: V,
    pub last: L,
}

impl<V: codeq::Decode, L: codeq::Decode> codeq::Decode for RaftLogState<V, L> {
    open spec fn enc(&self) -> Seq<u8> { self.vote.enc() + self.last.enc() }

    fn decode<R: io::Read>(mut r: R) -> (res: Result<Self, io::Error>) {
        let vote = codeq::Decode::decode(&mut r)?;
        let last = codeq::Decode::decode(&mut r)?;
        proof { r.law_resolved(); }
        Ok(Self {
            vote,
            last,
        })
    }
}
}
fn main() {}
