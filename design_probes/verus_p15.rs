#![feature(allocator_api)]
use vstd::prelude::*;
use vstd::std_specs::cmp::*;
use vstd::laws_cmp::*;
use std::collections::BTreeMap;
use core::cmp::Ordering;
use core::alloc::Allocator;
use core::borrow::Borrow;
verus! {

pub assume_specification<K, V, A: Allocator + Clone, Q: ?Sized + Ord>[ BTreeMap::<K, V, A>::split_off::<Q> ](m: &mut BTreeMap<K, V, A>, key: &Q) -> (r: BTreeMap<K, V, A>)
    where K: Borrow<Q> + Ord, A: Clone
    ensures
        obeys_cmp_spec::<K>() ==> {
            &&& final(m)@.dom() =~= old(m)@.dom().filter(|k: K| (k.cmp_spec(borrowed(key)) == Ordering::Less))
        }
    ;
pub uninterp spec fn borrowed<K, Q: ?Sized>(q: &Q) -> &K;


pub struct LogData { pub log_id: (u64, u64), pub chunk_id: u64 }

pub struct SM { pub log: BTreeMap<u64, LogData> }

impl SM {
    fn purge(&mut self, index: u64) {
        let b = self.log.split_off(&index);
        self.log = b;
    }
    fn trunc(&mut self, index: u64) {
        self.log.split_off(&index);
    }
}
}
fn main() {}
