use vstd::prelude::*;
verus! {

#[verifier::external_body]
pub struct IoError { e: std::io::Error }
#[verifier::external_body]
pub struct File { f: std::fs::File }
#[verifier::external_body]
#[verifier::reject_recursive_types(M)]
pub struct Receiver<M> { r: std::sync::mpsc::Receiver<M> }

impl<M> Receiver<M> {
    #[verifier::external_body]
    pub fn recv(&self) -> Result<M, ()> { self.r.recv().map_err(|_| ()) }
    #[verifier::external_body]
    pub fn try_recv(&self) -> Result<M, ()> { self.r.try_recv().map_err(|_| ()) }
}
impl IoError {
    #[verifier::external_body]
    pub fn dup(&self) -> IoError { IoError{ e: std::io::Error::new(self.e.kind(), self.e.to_string()) } }
}
impl File {
    #[verifier::external_body]
    pub fn write_all(&self, d: &Vec<u8>) -> Result<(), IoError> { unimplemented!() }
}

pub trait Callback: Sized { fn send(self, res: Result<(), IoError>); }

pub struct WriteRequest<C: Callback> {
    pub upto_offset: u64,
    pub data: Vec<u8>,
    pub sync: bool,
    pub callback: Option<C>,
}
pub enum WorkerRequest<C: Callback> {
    AppendFile(u64),
    RemoveChunks { chunk_paths: Vec<String> },
    Write(WriteRequest<C>),
}
pub struct SeqRequest<C: Callback> { pub seq: u64, pub req: WorkerRequest<C> }

pub struct FileEntry { pub f: File, pub sync_id: u64 }

#[verifier::reject_recursive_types(C)]
pub struct FlushWorker<C: Callback> {
    rx: Receiver<SeqRequest<C>>,
    files: Vec<FileEntry>,
}

impl<C: Callback> FlushWorker<C> {
    #[verifier::exec_allows_no_decreases_clause]
    fn run_inner(&mut self) -> Result<(), IoError> 
        requires old(self).files.len() > 0
    {
        loop 
            invariant self.files.len() > 0
        {
            let req = self.rx.recv();
            let Ok(SeqRequest { seq, req }) = req else {
                return Ok(());
            };

            let WorkerRequest::Write(w) = req else {
                self.handle_non_flush_request(req)?;
                continue;
            };

            let batch_size = 1024;

            let mut batch = Vec::with_capacity(batch_size);
            batch.push(w);
            let mut max_seq = seq;
            let mut last_non_flush = None;

            let mut n = 0usize;
            loop 
                invariant batch.len() > 0
            {
                if n >= batch_size { break; }
                let Ok(seq_req) = self.rx.try_recv() else { break; };
                n += 1;
                if let WorkerRequest::Write(w) = seq_req.req {
                    max_seq = if max_seq > seq_req.seq { max_seq } else { seq_req.seq };
                    batch.push(w);
                } else {
                    last_non_flush = Some(seq_req);
                    break;
                };
            }
            ();
            {
                let mut last_file: &File = &self.files.last().unwrap().f;
                for w in &batch {
                    if !w.data.is_empty() {
                        last_file.write_all(&w.data)?;
                    }
                }

                let need_sync = batch.iter().any(|w| w.sync);

                let sync_result = if need_sync {
                    let upto_offset = batch.last().unwrap().upto_offset;
                    let res = self.sync_all_files(upto_offset);
                    res
                } else {
                    Ok(())
                };

                for w in batch {
                    if let Some(cb) = w.callback {
                        match &sync_result {
                            Ok(()) => cb.send(Ok(())),
                            Err(e) => {
                                cb.send(Err(e.dup()));
                            }
                        }
                    }
                }
            }

            if let Some(SeqRequest {
                seq: nf_seq,
                req: last,
            }) = last_non_flush
            {
                self.handle_non_flush_request(last)?;
            }
        }
    }
    fn handle_non_flush_request(&mut self, req: WorkerRequest<C>) -> (r: Result<(), IoError>) 
       ensures final(self).files.len() >= old(self).files.len() 
    { Ok(()) }
    fn sync_all_files(&mut self, offset: u64) -> (r: Result<(), IoError>) 
       ensures final(self).files.len() >= 1
       { assume(false); Ok(()) }
}
}
fn main() {}
