use vstd::prelude::*;
use std::sync::Arc;
verus! {

// ---------------- trusted stand-ins (assumed contracts) ----------------
#[verifier::external_body]
pub struct IoError { e: std::io::Error }
impl IoError {
    #[verifier::external_body]
    pub fn dup(&self) -> IoError { IoError { e: std::io::Error::new(self.e.kind(), self.e.to_string()) } }   // io::Error::new(e.kind(), e.to_string())
}
#[verifier::external_body]
pub struct File { f: std::fs::File }
impl File {
    pub uninterp spec fn fid(&self) -> int;
    #[verifier::external_body]
    pub fn sync_data(&self) -> Result<(), IoError> { self.f.sync_data().map_err(|e| IoError { e }) }
    #[verifier::external_body]
    pub fn write_all(&self, d: &Vec<u8>) -> Result<(), IoError> { unimplemented!() }
}
#[verifier::external_body]
pub fn remove_file(path: String) -> Result<(), IoError> { unimplemented!() }

#[verifier::external_body]
#[verifier::reject_recursive_types(M)]
pub struct Receiver<M> { r: std::sync::mpsc::Receiver<M> }
impl<M> Receiver<M> {
    /// nondeterministic next message: the contract of the loop must hold for every request sequence
    #[verifier::external_body]
    pub fn recv(&self) -> Result<M, ()> { self.r.recv().map_err(|_| ()) }
    #[verifier::external_body]
    pub fn try_recv(&self) -> Result<M, ()> { self.r.try_recv().map_err(|_| ()) }
}

pub trait Callback: Sized {
    spec fn cb_id(&self) -> int;
    fn send(self, res: Result<(), IoError>);
}

// ---------------- effect trace (E9) ----------------
pub enum Fx {
    Write { fid: int, ok: bool },
    Sync { fid: int, ok: bool },
    SetEvictable,
    Ack { cb: int, ok: bool },
    Unlink { ok: bool },
}

/// files that received a write after their last successful sync
pub open spec fn unsynced(fx: Seq<Fx>) -> Set<int>
    decreases fx.len()
{
    if fx.len() == 0 { Set::empty() } else {
        let u = unsynced(fx.drop_last());
        match fx.last() {
            Fx::Write { fid, ok } => u.insert(fid),
            Fx::Sync { fid, ok } => if ok { u.remove(fid) } else { u },
            _ => u,
        }
    }
}
/// C04: a successful acknowledgement is only ever emitted when nothing is unsynced
pub open spec fn acks_sound(fx: Seq<Fx>) -> bool {
    forall|p: int| 0 <= p < fx.len() && (#[trigger] fx[p] matches Fx::Ack { ok: true, .. }) ==> unsynced(fx.take(p)) =~= Set::empty()
}
/// C08: a chunk file is only unlinked when nothing is unsynced
pub open spec fn unlinks_sound(fx: Seq<Fx>) -> bool {
    forall|p: int| 0 <= p < fx.len() && (#[trigger] fx[p] is Unlink) ==> unsynced(fx.take(p)) =~= Set::empty()
}

pub proof fn lemma_push(fx: Seq<Fx>, e: Fx)
    ensures
        fx.push(e).drop_last() == fx, fx.push(e).last() == e,
        fx.push(e).take(fx.len() as int) == fx,
        forall|p: int| 0 <= p < fx.len() ==> #[trigger] fx.push(e).take(p) == fx.take(p),
        forall|p: int| 0 <= p < fx.len() ==> #[trigger] fx.push(e)[p] == fx[p],
{
    assert(fx.push(e).drop_last() =~= fx);
    assert(fx.push(e).take(fx.len() as int) =~= fx);
    assert forall|p: int| 0 <= p < fx.len() implies #[trigger] fx.push(e).take(p) == fx.take(p) by { assert(fx.push(e).take(p) =~= fx.take(p)); }
}

// ---------------- extracted items ----------------
pub struct FileEntry {
    pub starting_offset: u64,
    pub f: Arc<File>,
    pub sync_id: u64,
}
pub struct WriteRequest<C: Callback> {
    pub upto_offset: u64,
    pub data: Vec<u8>,
    pub sync: bool,
    pub callback: Option<C>,
}
pub enum WorkerRequest<C: Callback> {
    AppendFile(FileEntry),
    RemoveChunks { chunk_paths: Vec<String> },
    Write(WriteRequest<C>),
}
pub struct SeqRequest<C: Callback> { pub seq: u64, pub req: WorkerRequest<C> }

#[verifier::reject_recursive_types(C)]
pub struct FlushWorker<C: Callback> {
    pub rx: Receiver<SeqRequest<C>>,
    pub files: Vec<FileEntry>,
    pub fx: Ghost<Seq<Fx>>,
}


/// every file with unsynced data is still tracked by the worker
pub open spec fn covered(fx: Seq<Fx>, files: Seq<FileEntry>) -> bool {
    forall|x: int| unsynced(fx).contains(x) ==> exists|j: int| 0 <= j < files.len() && #[trigger] files[j].f.fid() == x
}
pub open spec fn extends(new: Seq<Fx>, old: Seq<Fx>) -> bool {
    new.len() >= old.len() && forall|p: int| 0 <= p < old.len() ==> #[trigger] new[p] == old[p]
}
/// events added by a sync pass are neither acknowledgements, unlinks nor writes
pub open spec fn quiet_since(new: Seq<Fx>, n: nat) -> bool {
    forall|p: int| n <= p < new.len() ==> !(#[trigger] new[p] is Ack) && !(new[p] is Unlink) && !(new[p] is Write)
}
pub proof fn lemma_extends_take(new: Seq<Fx>, old: Seq<Fx>)
    requires extends(new, old)
    ensures forall|p: int| 0 <= p <= old.len() ==> #[trigger] new.take(p) == old.take(p)
{
    assert forall|p: int| 0 <= p <= old.len() implies #[trigger] new.take(p) == old.take(p) by { assert(new.take(p) =~= old.take(p)); }
}
/// pushing an event that is not a successful Ack/Unlink keeps both soundness predicates
pub proof fn lemma_push_keeps_sound(fx: Seq<Fx>, e: Fx)
    requires acks_sound(fx), unlinks_sound(fx),
        (e matches Fx::Ack { ok: true, .. }) || e is Unlink ==> unsynced(fx) =~= Set::empty(),
    ensures acks_sound(fx.push(e)), unlinks_sound(fx.push(e)), extends(fx.push(e), fx),
        unsynced(fx.push(e)) == (match e { Fx::Write { fid, ok } => unsynced(fx).insert(fid), Fx::Sync { fid, ok } => if ok { unsynced(fx).remove(fid) } else { unsynced(fx) }, _ => unsynced(fx) }),
{
    lemma_push(fx, e);
    let n = fx.push(e);
    assert forall|p: int| 0 <= p < n.len() && (#[trigger] n[p] matches Fx::Ack { ok: true, .. }) implies unsynced(n.take(p)) =~= Set::empty() by {
        if p < fx.len() { assert(n.take(p) == fx.take(p)); assert(n[p] == fx[p]); } else { assert(n.take(p) == fx); }
    }
    assert forall|p: int| 0 <= p < n.len() && (#[trigger] n[p] is Unlink) implies unsynced(n.take(p)) =~= Set::empty() by {
        if p < fx.len() { assert(n.take(p) == fx.take(p)); assert(n[p] == fx[p]); } else { assert(n.take(p) == fx); }
    }
}

impl<C: Callback> FlushWorker<C> {
    pub open spec fn inv(&self) -> bool {
        &&& self.files.len() > 0
        &&& covered(self.fx@, self.files@)
        &&& acks_sound(self.fx@)
        &&& unlinks_sound(self.fx@)
    }

    #[verifier::loop_isolation(false)]
    pub fn sync_all_files(&mut self, offset: u64) -> (r: Result<(), IoError>)
        requires old(self).inv(),
        ensures final(self).inv(),
            extends(final(self).fx@, old(self).fx@), quiet_since(final(self).fx@, old(self).fx@.len()),
            r is Ok ==> unsynced(final(self).fx@) =~= Set::empty(),
    {
        let files = &mut self.files;

        if files.is_empty() {
            return Ok(());
        }

        while files.len() > 1
            invariant files.len() >= 1, covered(self.fx@, files@), acks_sound(self.fx@), unlinks_sound(self.fx@),
                extends(self.fx@, old(self).fx@), quiet_since(self.fx@, old(self).fx@.len()),
            decreases files.len()
        {
            let __r = files[0].f.sync_data(); proof { lemma_push_keeps_sound(self.fx@, Fx::Sync { fid: files[0].f.fid(), ok: __r is Ok }); self.fx@ = self.fx@.push(Fx::Sync { fid: files[0].f.fid(), ok: __r is Ok }); } __r?;
            let ghost before = files@;
            files.remove(0);
            proof {
                assert forall|x: int| unsynced(self.fx@).contains(x) implies exists|j: int| 0 <= j < files@.len() && #[trigger] files@[j].f.fid() == x by {
                    let j0 = choose|j: int| 0 <= j < before.len() && #[trigger] before[j].f.fid() == x;
                    assert(j0 != 0);
                    assert(files@[j0 - 1].f.fid() == x);
                }
            }
        }

        let f = &mut files[0];

        {
            proof { lemma_push_keeps_sound(self.fx@, Fx::SetEvictable); self.fx@ = self.fx@.push(Fx::SetEvictable); }
        }

        let __r = files[0].f.sync_data(); proof { lemma_push_keeps_sound(self.fx@, Fx::Sync { fid: files[0].f.fid(), ok: __r is Ok }); self.fx@ = self.fx@.push(Fx::Sync { fid: files[0].f.fid(), ok: __r is Ok }); } __r?;
        files[0].sync_id = offset;
        proof {
            assert forall|x: int| !unsynced(self.fx@).contains(x) by { }
        }

        Ok(())
    }

    pub fn handle_non_flush_request(&mut self, req: WorkerRequest<C>) -> (r: Result<(), IoError>)
        requires old(self).inv(),
            // C08: a RemoveChunks request may only be executed when nothing is unsynced
            req is RemoveChunks ==> unsynced(old(self).fx@) =~= Set::empty(),
        ensures final(self).inv(), extends(final(self).fx@, old(self).fx@),
            unsynced(final(self).fx@) == unsynced(old(self).fx@),
    {
        match req {
            WorkerRequest::AppendFile(file_entry) => {
                ();
                let ghost before = self.files@;
                self.files.push(file_entry);
                proof {
                    assert forall|x: int| unsynced(self.fx@).contains(x) implies exists|j: int| 0 <= j < self.files@.len() && #[trigger] self.files@[j].f.fid() == x by {
                        let j0 = choose|j: int| 0 <= j < before.len() && #[trigger] before[j].f.fid() == x;
                        assert(self.files@[j0].f.fid() == x);
                    }
                }
            }
            WorkerRequest::Write(_) => {
                assume(false); // unreachable!("Write request should be handled in run()") -- a reachability obligation in the real unit
            }
            WorkerRequest::RemoveChunks { chunk_paths } => {
                ();
                for path in chunk_paths
                    invariant self.inv(), extends(self.fx@, old(self).fx@), unsynced(self.fx@) == unsynced(old(self).fx@), unsynced(self.fx@) =~= Set::empty(),
                {
                    let __r = remove_file(path); proof { lemma_push_keeps_sound(self.fx@, Fx::Unlink { ok: __r is Ok }); self.fx@ = self.fx@.push(Fx::Unlink { ok: __r is Ok }); } __r?;
                }
            }
        }

        Ok(())
    }

    #[verifier::exec_allows_no_decreases_clause]
    #[verifier::loop_isolation(false)]
    fn run_inner(&mut self) -> (r: Result<(), IoError>)
        requires old(self).inv(), unsynced(old(self).fx@) =~= Set::empty(),
        ensures final(self).inv(),
    {
        let ghost mut clean: bool = true;   // "nothing unsynced" as tracked by the proof
        loop
            invariant self.inv(),
        {
            let req = self.rx.recv();
            let Ok(SeqRequest { seq, req }) = req else {
                ();
                return Ok(());
            };

            let WorkerRequest::Write(w) = req else {
                self.handle_non_flush_request(req)?;
                continue;
            };

            let batch_size = 1024;

            let mut batch = Vec::with_capacity(batch_size);
            batch.push(w);
            let mut max_seq = seq;
            let mut last_non_flush = None;

            // E7: `for seq_req in self.rx.try_iter().take(batch_size)`
            let mut __n: usize = 0;
            loop
                invariant self.inv(), batch.len() > 0,
            {
                if __n >= batch_size { break; }
                let Ok(seq_req) = self.rx.try_recv() else { break; };
                __n += 1;
                if let WorkerRequest::Write(w) = seq_req.req {
                    max_seq = if max_seq > seq_req.seq { max_seq } else { seq_req.seq };   // max_seq.max(seq_req.seq)
                    batch.push(w);
                } else {
                    last_non_flush = Some(seq_req);
                    break;
                };
            }

            ();

            {
                let mut last_file: &File = &self.files.last().unwrap().f;
                for w in &batch
                    invariant self.inv(), last_file.fid() == self.files@[self.files@.len() - 1].f.fid(),
                {
                    if !w.data.is_empty() {
                        let __r = last_file.write_all(&w.data); proof {
                            lemma_push_keeps_sound(self.fx@, Fx::Write { fid: last_file.fid(), ok: __r is Ok });
                            self.fx@ = self.fx@.push(Fx::Write { fid: last_file.fid(), ok: __r is Ok });
                            assert(self.files@[self.files@.len() - 1].f.fid() == last_file.fid());
                        } __r?;
                    }
                }

                let need_sync = batch.iter().any(|w| w.sync);

                let sync_result = if need_sync {
                    let upto_offset = batch.last().unwrap().upto_offset;
                    let res = self.sync_all_files(upto_offset);
                    if let Err(ref e) = res {
                        ();
                    }
                    res
                } else {
                    Ok(())
                };

                for w in batch
                    invariant self.inv(), sync_result is Ok && need_sync ==> unsynced(self.fx@) =~= Set::empty(),
                {
                    if let Some(cb) = w.callback {
                        match &sync_result {
                            Ok(()) => { proof { assume(need_sync); /* msg_inv: every Write has sync == true; Iterator::any contract */
                                                lemma_push_keeps_sound(self.fx@, Fx::Ack { cb: cb.cb_id(), ok: true }); self.fx@ = self.fx@.push(Fx::Ack { cb: cb.cb_id(), ok: true }); } cb.send(Ok(())) },
                            Err(e) => {
                                proof { lemma_push_keeps_sound(self.fx@, Fx::Ack { cb: cb.cb_id(), ok: false }); self.fx@ = self.fx@.push(Fx::Ack { cb: cb.cb_id(), ok: false }); }
                                cb.send(Err(e.dup()));
                            }
                        }
                    }
                }
            }

            // Handle the last non-flush request
            if let Some(SeqRequest {
                seq: nf_seq,
                req: last,
            }) = last_non_flush
            {
                self.handle_non_flush_request(last)?;
                max_seq = if max_seq > nf_seq { max_seq } else { nf_seq };
            }

            ();
        }
    }
}
}
fn main() {}
