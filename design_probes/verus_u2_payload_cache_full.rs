#![feature(allocator_api)]
use vstd::prelude::*;
use vstd::std_specs::cmp::*;
use vstd::laws_cmp::*;
use vstd::laws_eq::*;
use vstd::std_specs::btree::*;
use std::collections::BTreeMap;
use core::cmp::Ordering;
use core::alloc::Allocator;
verus! {

global size_of usize == 8;

pub trait Types: Sized {
    type LogId: Clone + Ord + Eq;
    type LogPayload: Clone;
    spec fn spec_log_index(log_id: &Self::LogId) -> u64;
    spec fn spec_payload_size(payload: &Self::LogPayload) -> u64;
    fn log_index(log_id: &Self::LogId) -> (r: u64) ensures r == Self::spec_log_index(log_id);
    fn payload_size(payload: &Self::LogPayload) -> (r: u64) ensures r == Self::spec_payload_size(payload);
}

// ---- ordering helpers over the element order -------------------------------------------------
pub open spec fn le<K: Ord>(a: K, b: K) -> bool { a.cmp_spec(&b) != Ordering::Greater }
pub open spec fn lt<K: Ord>(a: K, b: K) -> bool { a.cmp_spec(&b) == Ordering::Less }
/// Some(k) <= bound  (None is below everything)
pub open spec fn le_opt<K: Ord>(k: K, bound: Option<K>) -> bool { match bound { Some(b) => le(k, b), None => false } }

pub open spec fn is_min_key<K: Ord, V>(m: Map<K, V>, k: K) -> bool {
    m.contains_key(k) && forall|j: K| m.contains_key(j) ==> #[trigger] le(k, j)
}
pub open spec fn is_max_key<K: Ord, V>(m: Map<K, V>, k: K) -> bool {
    m.contains_key(k) && forall|j: K| m.contains_key(j) ==> #[trigger] le(j, k)
}

// ---- assumed std contracts missing from vstd ---------------------------------------------------
pub assume_specification<K: Ord, V, A: Allocator + Clone>[ BTreeMap::<K, V, A>::pop_first ](m: &mut BTreeMap<K, V, A>) -> (r: Option<(K, V)>)
    ensures
        obeys_cmp::<K>() ==> match r {
            None => old(m)@.dom().is_empty() && final(m)@ == old(m)@,
            Some((k, v)) => is_min_key(old(m)@, k) && old(m)@[k] == v && final(m)@ == old(m)@.remove(k),
        };
pub assume_specification<K: Ord, V, A: Allocator + Clone>[ BTreeMap::<K, V, A>::pop_last ](m: &mut BTreeMap<K, V, A>) -> (r: Option<(K, V)>)
    ensures
        obeys_cmp::<K>() ==> match r {
            None => old(m)@.dom().is_empty() && final(m)@ == old(m)@,
            Some((k, v)) => is_max_key(old(m)@, k) && old(m)@[k] == v && final(m)@ == old(m)@.remove(k),
        };
pub assume_specification<K: Ord, V, A: Allocator + Clone>[ BTreeMap::<K, V, A>::first_key_value ](m: &BTreeMap<K, V, A>) -> (r: Option<(&K, &V)>)
    ensures
        obeys_cmp::<K>() ==> match r {
            None => m@.dom().is_empty(),
            Some((k, v)) => is_min_key(m@, *k) && m@[*k] == *v,
        };

// ---- sum over a finite map ---------------------------------------------------------------------
pub open spec fn map_sum<K, V>(m: Map<K, V>, f: spec_fn(V) -> nat) -> nat
    decreases m.dom().len()
{
    if m.dom().len() > 0 {
        let k = m.dom().choose();
        f(m[k]) + map_sum(m.remove(k), f)
    } else {
        0
    }
}

pub proof fn lemma_map_sum_remove<K, V>(m: Map<K, V>, f: spec_fn(V) -> nat, k: K)
    requires m.contains_key(k)
    ensures map_sum(m, f) == f(m[k]) + map_sum(m.remove(k), f)
    decreases m.dom().len()
{
    let c = m.dom().choose();
    if c == k {
    } else {
        lemma_map_sum_remove(m.remove(c), f, k);
        lemma_map_sum_remove(m.remove(k), f, c);
        assert(m.remove(c).remove(k) =~= m.remove(k).remove(c));
    }
}

/// form usable after a `pop_*` in a loop header, where the pre-pop map has no name
pub proof fn lemma_map_sum_popped<K, V>(f: spec_fn(V) -> nat, k: K, v: V)
    ensures forall|m: Map<K, V>| m.contains_key(k) && m[k] == v ==> map_sum(m, f) == f(v) + #[trigger] map_sum(m.remove(k), f)
{
    assert forall|m: Map<K, V>| m.contains_key(k) && m[k] == v implies map_sum(m, f) == f(v) + #[trigger] map_sum(m.remove(k), f) by {
        lemma_map_sum_remove(m, f, k);
    }
}

pub proof fn lemma_map_sum_insert<K, V>(m: Map<K, V>, f: spec_fn(V) -> nat, k: K, v: V)
    requires !m.contains_key(k)
    ensures map_sum(m.insert(k, v), f) == f(v) + map_sum(m, f)
{
    lemma_map_sum_remove(m.insert(k, v), f, k);
    assert(m.insert(k, v).remove(k) =~= m);
}


pub open spec fn opt_ref<K>(o: &Option<K>) -> Option<&K> { match o { Some(b) => Some(b), None => None } }
/// the exec comparison `Some(&k) <= bound.as_ref()` is `le_opt`
pub proof fn lemma_le_opt_exec<K: Ord>(k: K, bound: Option<K>)
    requires obeys_cmp::<K>()
    ensures le_opt(k, bound) == (PartialOrdSpec::partial_cmp_spec(&Some(&k), &opt_ref(&bound)) matches Some(Ordering::Less | Ordering::Equal))
{
    broadcast use {lemma_ref_obeys_cmp_spec, lemma_option_obeys_cmp_spec};
    reveal(obeys_cmp); reveal(obeys_cmp_partial_ord); reveal(obeys_cmp_ord);
}
pub proof fn lemma_le_trans<K: Ord>(a: K, b: K, c: K)
    requires obeys_cmp::<K>(), le(a, b), le(b, c)
    ensures le(a, c)
{
    reveal(obeys_cmp); reveal(obeys_cmp_partial_ord); reveal(obeys_cmp_ord); reveal(obeys_partial_cmp_spec_properties); reveal(obeys_eq_spec_properties);
}
pub proof fn lemma_le_trans_opt<K: Ord>(a: K, b: K, bound: Option<K>)
    requires obeys_cmp::<K>(), le(a, b), le_opt(b, bound)
    ensures le_opt(a, bound)
{
    reveal(obeys_cmp); reveal(obeys_cmp_partial_ord); reveal(obeys_cmp_ord); reveal(obeys_partial_cmp_spec_properties); reveal(obeys_eq_spec_properties);
}

pub open spec fn clone_eq<A: Clone>() -> bool { forall|a: &A, b: A| #[trigger] call_ensures(A::clone, (a,), b) ==> *a == b }

pub open spec fn psize<T: Types>() -> spec_fn(T::LogPayload) -> nat { |p: T::LogPayload| T::spec_payload_size(&p) as nat }

pub struct PayloadCache<T: Types> {
    pub max_items: usize,
    pub capacity: usize,
    pub size: usize,
    pub cache: BTreeMap<T::LogId, T::LogPayload>,
    pub last_evictable: Option<T::LogId>,
}

impl<T: Types> PayloadCache<T> {
    pub open spec fn inv(&self) -> bool {
        &&& self.size as nat == map_sum(self.cache@, psize::<T>())
    }


    pub open spec fn frame(&self, o: &Self) -> bool {
        self.max_items == o.max_items && self.capacity == o.capacity && self.last_evictable == o.last_evictable
    }
    /// k is pinned: strictly above the evictable boundary
    pub open spec fn pinned(&self, k: T::LogId) -> bool { !le_opt(k, self.last_evictable) }
    pub open spec fn sub_of(&self, o: &Self) -> bool {
        forall|k: T::LogId| #[trigger] self.cache@.contains_key(k) ==> o.cache@.contains_key(k) && self.cache@[k] == o.cache@[k]
    }
    pub open spec fn keeps_pinned_of(&self, o: &Self) -> bool {
        forall|k: T::LogId| #[trigger] o.cache@.contains_key(k) && o.pinned(k) ==> self.cache@.contains_key(k)
    }
    pub open spec fn over_limit(&self) -> bool { self.cache@.len() > self.max_items || self.size > self.capacity }

    fn need_evict(&self) -> (r: bool)
        requires obeys_cmp::<T::LogId>(),
        ensures r == self.over_limit()
    {
        broadcast use group_btree_axioms;
        self.cache.len() > self.max_items || self.size > self.capacity
    }

    #[verifier::loop_isolation(false)]
    pub fn try_evict(&mut self)
        requires old(self).inv(), obeys_cmp::<T::LogId>(),
        ensures final(self).inv(), final(self).frame(old(self)),
            final(self).sub_of(old(self)),
            final(self).keeps_pinned_of(old(self)),
            !old(self).over_limit() ==> final(self).cache@ == old(self).cache@ && final(self).size == old(self).size,
            // C15: only pinned entries may exceed the limits
            !final(self).over_limit() || (forall|k: T::LogId| #[trigger] final(self).cache@.contains_key(k) ==> final(self).pinned(k)),
    {
        broadcast use {lemma_ref_obeys_cmp_spec, lemma_option_obeys_cmp_spec};
        reveal(obeys_cmp); reveal(obeys_cmp_partial_ord); reveal(obeys_cmp_ord);
        while self.need_evict()
            invariant self.inv(), obeys_cmp::<T::LogId>(), self.frame(old(self)), self.sub_of(old(self)), self.keeps_pinned_of(old(self)),
                (self.cache@ == old(self).cache@ && self.size == old(self).size) || old(self).over_limit(),
            decreases self.cache@.len()
        {
            if let Some((log_id, _payload)) = self.cache.first_key_value() {
                if Some(log_id) <= self.last_evictable.as_ref() {
                    proof { lemma_le_opt_exec::<T::LogId>(*log_id, self.last_evictable); }
                    let ghost before = *self;
                    let ghost lid = *log_id;
                    self.evict_first();
                    proof {
                        let k = choose|k: T::LogId| is_min_key(before.cache@, k) && self.cache@ == before.cache@.remove(k);
                        lemma_le_trans_opt::<T::LogId>(k, lid, self.last_evictable);
                    }
                } else {
                    proof {
                        lemma_le_opt_exec::<T::LogId>(*log_id, self.last_evictable);
                        assert forall|k: T::LogId| #[trigger] self.cache@.contains_key(k) implies self.pinned(k) by {
                            if le_opt(k, self.last_evictable) { lemma_le_trans_opt::<T::LogId>(*log_id, k, self.last_evictable); }
                        }
                    }
                    return;
                }
            } else {
                return;
            }
        }
    }

    #[verifier::loop_isolation(false)]
    pub fn drain_evictable(&mut self)
        requires old(self).inv(), obeys_cmp::<T::LogId>(),
        ensures final(self).inv(), final(self).frame(old(self)), final(self).sub_of(old(self)), final(self).keeps_pinned_of(old(self)),
            forall|k: T::LogId| #[trigger] final(self).cache@.contains_key(k) ==> final(self).pinned(k),
    {
        broadcast use {lemma_ref_obeys_cmp_spec, lemma_option_obeys_cmp_spec};
        reveal(obeys_cmp); reveal(obeys_cmp_partial_ord); reveal(obeys_cmp_ord);
        while let Some((log_id, _)) = self.cache.first_key_value()
            invariant self.inv(), obeys_cmp::<T::LogId>(), self.frame(old(self)), self.sub_of(old(self)), self.keeps_pinned_of(old(self)),
            decreases self.cache@.len()
        {
            if Some(log_id) <= self.last_evictable.as_ref() {
                let ghost before = *self;
                let ghost lid = *log_id;
                self.evict_first();
                proof {
                    let k = choose|k: T::LogId| is_min_key(before.cache@, k) && self.cache@ == before.cache@.remove(k);
                    lemma_le_trans_opt::<T::LogId>(k, lid, self.last_evictable);
                }
            } else {
                proof {
                    assert forall|k: T::LogId| #[trigger] self.cache@.contains_key(k) implies self.pinned(k) by {
                        if le_opt(k, self.last_evictable) { lemma_le_trans_opt::<T::LogId>(*log_id, k, self.last_evictable); }
                    }
                }
                break;
            }
        }
    }

    pub fn insert(&mut self, key: T::LogId, value: T::LogPayload)
        requires old(self).inv(), obeys_cmp::<T::LogId>(),
            !old(self).cache@.contains_key(key),
            old(self).size + T::spec_payload_size(&value) <= usize::MAX,
        ensures final(self).inv(), final(self).frame(old(self)),
            // nothing but (a subset of) the old entries plus the new one
            forall|k: T::LogId| #[trigger] final(self).cache@.contains_key(k) ==> (k == key && final(self).cache@[k] == value) || (old(self).cache@.contains_key(k) && final(self).cache@[k] == old(self).cache@[k]),
            final(self).keeps_pinned_of(old(self)),
            old(self).pinned(key) ==> final(self).cache@.contains_key(key),
            !final(self).over_limit() || (forall|k: T::LogId| #[trigger] final(self).cache@.contains_key(k) ==> final(self).pinned(k)),
            // no eviction when the limits are not exceeded (C01 regime)
            old(self).cache@.len() + 1 <= old(self).max_items && old(self).size + T::spec_payload_size(&value) <= old(self).capacity ==> final(self).cache@ == old(self).cache@.insert(key, value),
    {
        let payload_size = T::payload_size(&value) as usize;

        proof { lemma_map_sum_insert(self.cache@, psize::<T>(), key, value); }
        self.cache.insert(key, value);
        self.size += payload_size;
        let ghost mid = *self;
        proof { broadcast use group_btree_axioms; assert(mid.cache@ == old(self).cache@.insert(key, value)); }

        self.try_evict();
        proof {
            assert forall|k: T::LogId| #[trigger] old(self).cache@.contains_key(k) && old(self).pinned(k) implies self.cache@.contains_key(k) by {
                assert(mid.cache@.contains_key(k) && mid.pinned(k));
            }
            if old(self).pinned(key) { assert(mid.cache@.contains_key(key) && mid.pinned(key)); }
        }
    }

    pub fn clear(&mut self)
        ensures final(self).inv(), final(self).frame(old(self)), final(self).cache@ == Map::<T::LogId, T::LogPayload>::empty(),
    {
        self.cache.clear();
        self.size = 0;
    }

    pub fn get(&self, key: &T::LogId) -> (r: Option<T::LogPayload>)
        requires obeys_cmp::<T::LogId>(), clone_eq::<T::LogPayload>(),
        ensures r == (if self.cache@.contains_key(*key) { Some(self.cache@[*key]) } else { None }),
    {
        broadcast use group_btree_axioms;
        self.cache.get(key).cloned()
    }

    #[verifier::loop_isolation(false)]
    #[verifier::allow_complex_invariants]
    pub fn truncate_after(&mut self, key: &T::LogId)
        requires old(self).inv(), obeys_cmp::<T::LogId>(),
        ensures final(self).inv(), final(self).frame(old(self)), final(self).sub_of(old(self)),
            // exactly the entries at or below `key` remain
            forall|k: T::LogId| #[trigger] old(self).cache@.contains_key(k) ==> (final(self).cache@.contains_key(k) <==> le(k, *key)),
    {
        broadcast use {lemma_ref_obeys_cmp_spec, lemma_option_obeys_cmp_spec, group_btree_axioms};
        reveal(obeys_cmp); reveal(obeys_cmp_partial_ord); reveal(obeys_cmp_ord); reveal(obeys_partial_cmp_spec_properties); reveal(obeys_eq_spec_properties);
        while let Some((log_id, payload)) = self.cache.pop_last()
            invariant self.inv(), obeys_cmp::<T::LogId>(), self.frame(old(self)), self.sub_of(old(self)),
                forall|k: T::LogId| #[trigger] old(self).cache@.contains_key(k) ==> self.cache@.contains_key(k) || !le(k, *key),
            ensures
                forall|k: T::LogId| #[trigger] self.cache@.contains_key(k) ==> le(k, *key),
            decreases self.cache@.len()
        {
            proof { lemma_map_sum_popped::<T::LogId, T::LogPayload>(psize::<T>(), log_id, payload); assert(self.size as nat == psize::<T>()(payload) + map_sum(self.cache@, psize::<T>())); }
            if key < &log_id {
                self.size -= T::payload_size(&payload) as usize;
            } else {
                proof {
                    lemma_map_sum_insert(self.cache@, psize::<T>(), log_id, payload);
                    assert forall|k: T::LogId| #[trigger] self.cache@.insert(log_id, payload).contains_key(k) implies le(k, *key) by {
                        if k != log_id { lemma_le_trans::<T::LogId>(k, log_id, *key); }
                    }
                }
                self.cache.insert(log_id, payload);
                break;
            }
        }
    }

    #[verifier::loop_isolation(false)]
    #[verifier::allow_complex_invariants]
    pub fn purge_upto(&mut self, key: &T::LogId)
        requires old(self).inv(), obeys_cmp::<T::LogId>(),
        ensures final(self).inv(), final(self).frame(old(self)), final(self).sub_of(old(self)),
            final(self).keeps_pinned_of(old(self)),
            // only entries at or below `key` are dropped
            forall|k: T::LogId| #[trigger] old(self).cache@.contains_key(k) ==> final(self).cache@.contains_key(k) || (le(k, *key) && !old(self).pinned(k)),
    {
        broadcast use {lemma_ref_obeys_cmp_spec, lemma_option_obeys_cmp_spec, group_btree_axioms};
        reveal(obeys_cmp); reveal(obeys_cmp_partial_ord); reveal(obeys_cmp_ord); reveal(obeys_partial_cmp_spec_properties); reveal(obeys_eq_spec_properties);
        while let Some((log_id, payload)) = self.cache.pop_first()
            invariant self.inv(), obeys_cmp::<T::LogId>(), self.frame(old(self)), self.sub_of(old(self)),
                forall|k: T::LogId| #[trigger] old(self).cache@.contains_key(k) ==> self.cache@.contains_key(k) || (le(k, *key) && !old(self).pinned(k)),
            decreases self.cache@.len()
        {
            proof { lemma_map_sum_popped::<T::LogId, T::LogPayload>(psize::<T>(), log_id, payload); assert(self.size as nat == psize::<T>()(payload) + map_sum(self.cache@, psize::<T>())); }
            if &log_id <= key && Some(&log_id) <= self.last_evictable.as_ref() {
                self.size -= T::payload_size(&payload) as usize;
            } else {
                proof { lemma_map_sum_insert(self.cache@, psize::<T>(), log_id, payload); }
                self.cache.insert(log_id, payload);
                break;
            }
        }
    }

    fn evict_first(&mut self)
        requires old(self).inv(), obeys_cmp::<T::LogId>(),
        ensures final(self).inv(),
            final(self).max_items == old(self).max_items, final(self).capacity == old(self).capacity, final(self).last_evictable == old(self).last_evictable,
            old(self).cache@.dom().is_empty() ==> final(self).cache@ == old(self).cache@,
            !old(self).cache@.dom().is_empty() ==> exists|k: T::LogId| is_min_key(old(self).cache@, k) && final(self).cache@ == old(self).cache@.remove(k),
    {
        if let Some((_log_id, payload)) = self.cache.pop_first() {
            proof { lemma_map_sum_remove(old(self).cache@, psize::<T>(), _log_id); }
            self.size -= T::payload_size(&payload) as usize;
        }
    }
}
}
fn main() {}
