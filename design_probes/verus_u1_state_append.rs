use vstd::prelude::*;
use vstd::std_specs::cmp::*;
use vstd::laws_cmp::*;
use core::cmp::Ordering;
verus! {

pub trait Types: Sized {
    type LogId: Clone + Ord + Eq;
    type Vote: Clone + PartialOrd + Eq;
    type UserData: Clone + Eq;
    type LogPayload: Clone;

    spec fn spec_log_index(log_id: &Self::LogId) -> u64;

    fn log_index(log_id: &Self::LogId) -> (r: u64)
        ensures r == Self::spec_log_index(log_id);

    fn next_log_index(log_id: Option<&Self::LogId>) -> (r: u64)
        requires log_id is Some ==> Self::spec_log_index(log_id.unwrap()) < u64::MAX
        ensures r == (match log_id { Some(l) => (Self::spec_log_index(l) + 1) as u64, None => 0u64 })
    {
        match log_id {
            Some(log_id) => Self::log_index(log_id) + 1,
            None => 0,
        }
    }
}

pub open spec fn spec_next_log_index<T: Types>(log_id: Option<&T::LogId>) -> u64 {
    match log_id { Some(l) => (T::spec_log_index(l) + 1) as u64, None => 0 }
}

pub struct RaftLogState<T: Types> {
    pub vote: Option<T::Vote>,
    pub last: Option<T::LogId>,
    pub committed: Option<T::LogId>,
    pub purged: Option<T::LogId>,
    pub user_data: Option<T::UserData>,
}

pub struct ErrX {}
pub open spec fn onext<T: Types>(l: Option<T::LogId>) -> u64 { match l { Some(l) => (T::spec_log_index(&l) + 1) as u64, None => 0 } }

// law: clone returns an equal value
pub open spec fn clone_eq<A: Clone>() -> bool { forall|a: &A, b: A| #[trigger] call_ensures(A::clone, (a,), b) ==> *a == b }

pub open spec fn laws<T: Types>() -> bool {
    &&& obeys_cmp::<T::LogId>()
    &&& clone_eq::<T::LogId>()
}

pub open spec fn olt<K: Ord>(a: Option<K>, b: Option<K>) -> bool { PartialOrdSpec::partial_cmp_spec(&a, &b) == Some(Ordering::Less) }
pub open spec fn ole<K: Ord>(a: Option<K>, b: Option<K>) -> bool { PartialOrdSpec::partial_cmp_spec(&a, &b) == Some(Ordering::Less) || PartialOrdSpec::partial_cmp_spec(&a, &b) == Some(Ordering::Equal) }

impl<T: Types> RaftLogState<T> {
    pub fn append(
        &mut self,
        log_id: &T::LogId,
    ) -> (r: Result<(), ErrX>)
        requires laws::<T>(),
            old(self).last is Some ==> T::spec_log_index(&old(self).last.unwrap()) < u64::MAX,
        ensures
            ({
                let reject = ole(Some(*log_id), old(self).last) || (old(self).last is Some && onext::<T>(old(self).last) != T::spec_log_index(log_id));
                &&& r is Err <==> reject
                &&& r is Err ==> *final(self) == *old(self)
                &&& r is Ok ==> final(self).last == Some(*log_id) && final(self).vote == old(self).vote && final(self).committed == old(self).committed && final(self).purged == old(self).purged && final(self).user_data == old(self).user_data
            })
    {
        broadcast use {lemma_ref_obeys_cmp_spec, lemma_option_obeys_cmp_spec};
        reveal(obeys_cmp); reveal(obeys_cmp_partial_ord); reveal(obeys_cmp_ord);
        if Some(log_id) <= self.last.as_ref() {
            return Err(ErrX{});
        }

        if self.last.is_some() {
            let expected = T::next_log_index(self.last.as_ref());
            let this_index = T::log_index(log_id);

            if expected != this_index {
                return Err(ErrX{});
            }
        }

        self.last = Some(log_id.clone());
        Ok(())
    }
}
}
fn main() {}
