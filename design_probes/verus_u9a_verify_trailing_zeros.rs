use vstd::prelude::*;
use std::sync::Arc;
verus! {
pub struct FmtOpaque {}
#[verifier::external_body]
pub fn fmt_opaque() -> FmtOpaque { FmtOpaque {} }
pub mod io {
    use vstd::prelude::*;
    #[verifier::external_body]
    pub struct Error { e: std::io::Error }
    #[derive(PartialEq, Eq, Clone, Copy)]
    pub enum ErrorKind { UnexpectedEof, InvalidData, InvalidInput, Other }
    impl Error {
        pub uninterp spec fn kind_spec(&self) -> ErrorKind;
        #[verifier::external_body]
        pub fn new(kind: ErrorKind, msg: super::FmtOpaque) -> (e: Error) ensures e.kind_spec() == kind { unimplemented!() }
        #[verifier::external_body]
        pub fn kind(&self) -> (k: ErrorKind) ensures k == self.kind_spec() { unimplemented!() }
    }
}
/// std::fs::File with a ghost content (immutable through &File: recovery only reads it, then truncates at the very end)
#[verifier::external_body]
pub struct File { f: std::fs::File }
pub struct Metadata { pub l: u64 }
impl Metadata { pub fn len(&self) -> (r: u64) ensures r == self.l { self.l } }
impl File {
    pub uninterp spec fn content(&self) -> Seq<u8>;
    #[verifier::external_body]
    pub fn metadata(&self) -> (r: Result<Metadata, io::Error>) ensures r is Ok ==> r->Ok_0.l == self.content().len() { unimplemented!() }
    /// pread: short reads allowed; 0 only at/after EOF (buffer non-empty)
    #[verifier::external_body]
    pub fn read_at(&self, buf: &mut Vec<u8>, offset: u64) -> (r: Result<usize, io::Error>)
        ensures final(buf)@.len() == old(buf)@.len(),
            r is Ok ==> ({
                let n = r->Ok_0 as int;
                &&& n <= old(buf)@.len() && offset + n <= self.content().len() || (n == 0)
                &&& (n == 0 <==> (offset >= self.content().len() || old(buf)@.len() == 0))
                &&& forall|i: int| 0 <= i < n ==> #[trigger] final(buf)@[i] == self.content()[offset + i]
            })
    { unimplemented!() }
}
pub struct ChunkId(pub u64);

pub open spec fn zeros_from(s: Seq<u8>, from: int) -> bool { forall|i: int| from <= i < s.len() ==> #[trigger] s[i] == 0 }

pub struct Chunk {}
impl Chunk {
    #[verifier::loop_isolation(false)]
    #[verifier::allow_complex_invariants]
    fn verify_trailing_zeros(
        file: Arc<File>,
        mut start_offset: u64,
        chunk_id: ChunkId,
    ) -> (r: Result<bool, io::Error>)
        ensures
            r is Ok ==> start_offset <= file.content().len() && r->Ok_0 == zeros_from(file.content(), start_offset as int),
            start_offset > file.content().len() ==> r is Err,
    {
        let ghost start0 = start_offset;
        let file_size = file.metadata()?.len();

        if start_offset > file_size {
            return Err(io::Error::new(
                io::ErrorKind::InvalidInput,
                fmt_opaque(),
            ));
        }

        if file_size == start_offset {
            return Ok(true);
        }

        const WARN_THRESHOLD: u64 = 64 * 1024; // 64KB
        if file_size - start_offset > WARN_THRESHOLD {
            ();
        }

        const READ_CHUNK_SIZE: usize = 1024; // 1KB
        let mut buffer = vec![0u8; READ_CHUNK_SIZE];

        loop
            invariant start0 <= start_offset <= file_size, file_size == file.content().len(), buffer@.len() == 1024,
                forall|i: int| start0 <= i < start_offset ==> #[trigger] file.content()[i] == 0,
            ensures start_offset == file_size,
                forall|i: int| start0 <= i < start_offset ==> #[trigger] file.content()[i] == 0,
            decreases file_size - start_offset
        {
            let n = file.read_at(&mut buffer, start_offset)?;
            if n == 0 {
                break;
            }

            // E7: for (i, byt) in buffer.iter().enumerate().take(n)
            let mut i: usize = 0;
            while i < n
                invariant i <= n <= 1024, buffer@.len() == 1024, start_offset + n <= file_size,
                    forall|j: int| 0 <= j < n ==> #[trigger] buffer@[j] == file.content()[start_offset + j],
                    forall|j: int| 0 <= j < i ==> #[trigger] buffer@[j] == 0,
                decreases n - i
            {
                let byt = &buffer[i];
                if *byt != 0 {
                    ();
                    proof { assert(file.content()[start_offset + i] != 0); }
                    return Ok(false);
                }
                i += 1;
            }

            proof {
                assert forall|k: int| start0 <= k < start_offset + n implies #[trigger] file.content()[k] == 0 by {
                    if k >= start_offset { assert(buffer@[k - start_offset] == 0); }
                }
            }
            start_offset += n as u64;
        }
        Ok(true)
    }
}
}
fn main() {}
