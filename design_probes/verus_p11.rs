#![feature(allocator_api)]
use vstd::prelude::*;
use vstd::std_specs::cmp::*;
use vstd::laws_cmp::*;
use std::collections::BTreeMap;
use core::cmp::Ordering;
use core::alloc::Allocator;
verus! {

pub trait Types: Sized {
    type LogId: Clone + Ord + Eq;
    type LogPayload: Clone;
    fn log_index(log_id: &Self::LogId) -> u64;
    fn payload_size(payload: &Self::LogPayload) -> u64;
}

pub open spec fn le<K: Ord>(a: K, b: K) -> bool { a.cmp_spec(&b) != Ordering::Greater }
pub open spec fn is_min_key<K: Ord, V>(m: Map<K, V>, k: K) -> bool {
    m.contains_key(k) && forall|j: K| m.contains_key(j) ==> #[trigger] le(k, j)
}
pub open spec fn is_max_key<K: Ord, V>(m: Map<K, V>, k: K) -> bool {
    m.contains_key(k) && forall|j: K| m.contains_key(j) ==> #[trigger] le(j, k)
}

pub assume_specification<K: Ord, V, A: Allocator + Clone>[ BTreeMap::<K, V, A>::pop_first ](m: &mut BTreeMap<K, V, A>) -> (r: Option<(K, V)>)
    ensures
        obeys_cmp_spec::<K>() ==> match r {
            None => old(m)@.dom().is_empty() && final(m)@ == old(m)@,
            Some((k, v)) => is_min_key(old(m)@, k) && old(m)@[k] == v && final(m)@ == old(m)@.remove(k),
        };
pub assume_specification<K: Ord, V, A: Allocator + Clone>[ BTreeMap::<K, V, A>::pop_last ](m: &mut BTreeMap<K, V, A>) -> (r: Option<(K, V)>)
    ensures
        obeys_cmp_spec::<K>() ==> match r {
            None => old(m)@.dom().is_empty() && final(m)@ == old(m)@,
            Some((k, v)) => is_max_key(old(m)@, k) && old(m)@[k] == v && final(m)@ == old(m)@.remove(k),
        };

pub assume_specification<K: Ord, V, A: Allocator + Clone>[ BTreeMap::<K, V, A>::first_key_value ](m: &BTreeMap<K, V, A>) -> (r: Option<(&K, &V)>)
    ensures
        obeys_cmp_spec::<K>() ==> match r {
            None => m@.dom().is_empty(),
            Some((k, v)) => is_min_key(m@, *k) && m@[*k] == *v,
        };

pub struct PayloadCache<T: Types> {
    max_items: usize,
    capacity: usize,
    size: usize,
    pub cache: BTreeMap<T::LogId, T::LogPayload>,
    last_evictable: Option<T::LogId>,
}

impl<T: Types> PayloadCache<T> {
    pub fn new(max_items: usize, capacity: usize) -> Self {
        Self {
            max_items,
            capacity,
            size: 0,
            cache: Default::default(),
            last_evictable: None,
        }
    }

    pub fn set_last_evictable(&mut self, log_id: Option<T::LogId>) {
        self.last_evictable = log_id;
    }

    pub fn last_evictable(&self) -> Option<&T::LogId> {
        self.last_evictable.as_ref()
    }

    pub fn item_count(&self) -> usize {
        self.cache.len()
    }

    pub fn insert(&mut self, key: T::LogId, value: T::LogPayload) {
        let payload_size = T::payload_size(&value) as usize;

        self.cache.insert(key, value);
        self.size += payload_size;

        self.try_evict();
    }

    pub fn try_evict(&mut self) {
        while self.need_evict() {
            if let Some((log_id, _payload)) = self.cache.first_key_value() {
                if Some(log_id) <= self.last_evictable.as_ref() {
                    self.evict_first()
                } else {
                    return;
                }
            } else {
                return;
            }
        }
    }

    pub fn drain_evictable(&mut self) {
        while let Some((log_id, _)) = self.cache.first_key_value() {
            if Some(log_id) <= self.last_evictable.as_ref() {
                self.evict_first();
            } else {
                break;
            }
        }
    }

    fn need_evict(&self) -> bool {
        self.cache.len() > self.max_items || self.size > self.capacity
    }

    fn evict_first(&mut self) {
        if let Some((_log_id, payload)) = self.cache.pop_first() {
            self.size -= T::payload_size(&payload) as usize;
        }
    }

    pub fn get(&self, key: &T::LogId) -> Option<T::LogPayload> {
        self.cache.get(key).cloned()
    }

    pub fn truncate_after(&mut self, key: &T::LogId) {
        while let Some((log_id, payload)) = self.cache.pop_last() {
            if key < &log_id {
                self.size -= T::payload_size(&payload) as usize;
            } else {
                self.cache.insert(log_id, payload);
                break;
            }
        }
    }

    pub fn purge_upto(&mut self, key: &T::LogId) {
        while let Some((log_id, payload)) = self.cache.pop_first() {
            if &log_id <= key && Some(&log_id) <= self.last_evictable.as_ref() {
                self.size -= T::payload_size(&payload) as usize;
            } else {
                self.cache.insert(log_id, payload);
                break;
            }
        }
    }

    pub fn clear(&mut self) {
        self.cache.clear();
        self.size = 0;
    }
}
}
fn main() {}
