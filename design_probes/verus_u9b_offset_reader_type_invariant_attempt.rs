use vstd::prelude::*;
verus! {
pub struct FmtOpaque {}
#[verifier::external_body]
pub fn fmt_opaque() -> FmtOpaque { FmtOpaque {} }
pub mod io {
    use vstd::prelude::*;
    #[verifier::external_body]
    pub struct Error { e: std::io::Error }
    #[derive(PartialEq, Eq, Clone, Copy)]
    pub enum ErrorKind { UnexpectedEof, InvalidData, InvalidInput, Other }
    impl Error {
        pub uninterp spec fn kind_spec(&self) -> ErrorKind;
        #[verifier::external_body]
        pub fn new(kind: ErrorKind, msg: super::FmtOpaque) -> (e: Error) ensures e.kind_spec() == kind { unimplemented!() }
        #[verifier::external_body]
        pub fn kind(&self) -> (k: ErrorKind) ensures k == self.kind_spec() { unimplemented!() }
    }
    pub trait Read: Sized {
        spec fn origin(&self) -> Seq<u8>;
        spec fn rem(&self) -> Seq<u8>;
        #[verifier::prophetic]
        spec fn after(&self) -> Seq<u8>;
        #[verifier::prophetic]
        spec fn kept(&self) -> bool;
        proof fn law_resolved(&self)
            ensures has_resolved(*self) ==> self.after() == self.rem() && self.kept();
        proof fn law_suffix(&self)
            ensures self.rem().len() <= self.origin().len(), self.origin().skip(self.origin().len() - self.rem().len()) == self.rem();
        /// the one required method of std::io::Read
        fn read(&mut self, buf: &mut Vec<u8>) -> (r: Result<usize, Error>)
            ensures
                (*final(self)).after() == (*old(self)).after(), (*final(self)).kept() == (*old(self)).kept(), (*final(self)).origin() == (*old(self)).origin(),
                final(buf)@.len() == old(buf)@.len(),
                match r {
                    Ok(n) => n <= old(buf)@.len() && n <= (*old(self)).rem().len() && (*final(self)).rem() == (*old(self)).rem().skip(n as int)
                        && final(buf)@.take(n as int) == (*old(self)).rem().take(n as int),
                    Err(e) => (*final(self)).rem() == (*old(self)).rem(),
                }
            no_unwind;
    }
}
use io::Read as _;

pub struct OffsetReader<R: io::Read> {
    inner: R,
    offset: usize,
}

impl<R: io::Read> OffsetReader<R> {
    /// the offset counts exactly the consumed bytes (and streams are shorter than 2^64: stated magnitude assumption)
    #[verifier::type_invariant]
    pub closed spec fn inv(self) -> bool { self.offset == self.inner.origin().len() - self.inner.rem().len() && self.inner.origin().len() <= usize::MAX }

    pub fn new(inner: R) -> (s: Self)
        requires inner.rem() == inner.origin(), inner.origin().len() <= usize::MAX
    {
        Self { inner, offset: 0 }
    }

    pub fn offset(&self) -> (r: usize) ensures r == self.origin().len() - self.rem().len() {
        proof { use_type_invariant(self); }
        self.offset
    }
}

impl<R: io::Read> io::Read for OffsetReader<R> {
    closed spec fn origin(&self) -> Seq<u8> { self.inner.origin() }
    closed spec fn rem(&self) -> Seq<u8> { self.inner.rem() }
    #[verifier::prophetic]
    closed spec fn after(&self) -> Seq<u8> { self.inner.after() }
    #[verifier::prophetic]
    closed spec fn kept(&self) -> bool { self.inner.kept() }
    proof fn law_resolved(&self) { admit(); }
    proof fn law_suffix(&self) { self.inner.law_suffix(); }

    fn read(&mut self, buf: &mut Vec<u8>) -> (r: Result<usize, io::Error>)
    {
        proof { use_type_invariant(&*self); self.inner.law_suffix(); }
        let n = self.inner.read(buf)?;
        proof { self.inner.law_suffix(); }
        self.offset += n;
        Ok(n)
    }
}
}
fn main() {}
