use vstd::prelude::*;
use std::sync::Arc;
verus! {

#[verifier::external_body]
pub struct IoError { e: std::io::Error }
#[verifier::external_body]
pub struct File { f: std::fs::File }
impl File {
    pub uninterp spec fn fid(&self) -> int;
    #[verifier::external_body]
    pub fn sync_data(&self) -> Result<(), IoError> { self.f.sync_data().map_err(|e| IoError{e}) }
}

pub enum Fx { Sync{ fid: int, ok: bool }, SetEvictable{ b: Option<u64> } }

pub struct PayloadCache { pub last_evictable: Option<u64> }
impl PayloadCache {
    pub fn set_last_evictable(&mut self, log_id: Option<u64>) 
        ensures final(self).last_evictable == log_id
    { self.last_evictable = log_id; }
}

pub struct FileEntry {
    pub starting_offset: u64,
    pub f: Arc<File>,
    pub prev_last_log_id: Option<u64>,
    pub sync_id: u64,
}

pub struct FlushWorker {
    pub files: Vec<FileEntry>,
    pub cache: PayloadCache,          // E6: Arc<RwLock<PayloadCache<T>>> -> PayloadCache<T>
    pub fx: Ghost<Seq<Fx>>,           // E9: effect trace
}

pub open spec fn all_synced_prefix(files: Seq<FileEntry>, fx: Seq<Fx>, n: int) -> bool {
    fx.len() == n && forall|i: int| 0 <= i < n ==> fx[i] == (Fx::Sync{ fid: files[i].f.fid(), ok: true })
}

impl FlushWorker {
    pub fn sync_all_files(&mut self, offset: u64) -> (r: Result<(), IoError>) 
        requires old(self).files.len() > 0
        ensures
            r is Ok ==> {
                let n = old(self).files.len() as int;
                let new = final(self).fx@.skip(old(self).fx@.len() as int);
                &&& final(self).files.len() == 1
                &&& new.len() == n + 1
                &&& (forall|i: int| 0 <= i < n - 1 ==> new[i] == (Fx::Sync{ fid: old(self).files[i].f.fid(), ok: true }))
                &&& new[n - 1] == (Fx::SetEvictable{ b: old(self).files[n - 1].prev_last_log_id })
                &&& new[n] == (Fx::Sync{ fid: old(self).files[n - 1].f.fid(), ok: true })
            }
    {
        let files = &mut self.files;

        if files.is_empty() {
            return Ok(());
        }

        let ghost old_files = files@;
        let ghost old_fx = self.fx@;
        let ghost mut k: int = 0;

        while files.len() > 1 
            invariant
                0 <= k, files.len() >= 1,
                files@ == old_files.skip(k),
                k + files.len() == old_files.len(),
                self.fx@.len() == old_fx.len() + k,
                self.fx@.take(old_fx.len() as int) == old_fx,
                forall|i: int| 0 <= i < k ==> self.fx@[old_fx.len() + i] == (Fx::Sync{ fid: old_files[i].f.fid(), ok: true }),
            decreases files.len()
        {
            let f = files.remove(0);
            let __r = f.f.sync_data(); proof { self.fx@ = self.fx@.push(Fx::Sync{ fid: f.f.fid(), ok: __r is Ok }); } __r?;
            proof { k = k + 1; }
        }

        let f = &mut files[0];

        {
            let mut cache = &mut self.cache;
            cache.set_last_evictable(f.prev_last_log_id.clone()); proof { self.fx@ = self.fx@.push(Fx::SetEvictable{ b: f.prev_last_log_id }); }
        }

        let __r = files[0].f.sync_data(); proof { self.fx@ = self.fx@.push(Fx::Sync{ fid: files[0].f.fid(), ok: __r is Ok }); } __r?;
        files[0].sync_id = offset;

        Ok(())
    }
}
}
fn main() {}
