use vstd::prelude::*;
use std::sync::Arc;
verus! {

// ---------------- trusted stand-ins (assumed contracts) ----------------
#[verifier::external_body]
pub struct IoError { e: std::io::Error }
impl IoError {
    #[verifier::external_body]
    pub fn dup(&self) -> IoError { IoError { e: std::io::Error::new(self.e.kind(), self.e.to_string()) } }   // io::Error::new(e.kind(), e.to_string())
}
#[verifier::external_body]
pub struct File { f: std::fs::File }
impl File {
    pub uninterp spec fn fid(&self) -> int;
    #[verifier::external_body]
    pub fn sync_data(&self) -> Result<(), IoError> { self.f.sync_data().map_err(|e| IoError { e }) }
    #[verifier::external_body]
    pub fn write_all(&self, d: &Vec<u8>) -> Result<(), IoError> { unimplemented!() }
}
#[verifier::external_body]
pub fn remove_file(path: String) -> Result<(), IoError> { unimplemented!() }

#[verifier::external_body]
#[verifier::reject_recursive_types(M)]
pub struct Receiver<M> { r: std::sync::mpsc::Receiver<M> }
impl<M> Receiver<M> {
    /// nondeterministic next message: the contract of the loop must hold for every request sequence
    #[verifier::external_body]
    pub fn recv(&self) -> Result<M, ()> { self.r.recv().map_err(|_| ()) }
    #[verifier::external_body]
    pub fn try_recv(&self) -> Result<M, ()> { self.r.try_recv().map_err(|_| ()) }
}

pub trait Callback: Sized {
    spec fn cb_id(&self) -> int;
    fn send(self, res: Result<(), IoError>);
}

// ---------------- effect trace (E9) ----------------
pub enum Fx {
    Write { fid: int, ok: bool },
    Sync { fid: int, ok: bool },
    SetEvictable,
    Ack { cb: int, ok: bool },
    Unlink { ok: bool },
}

/// files that received a write after their last successful sync
pub open spec fn unsynced(fx: Seq<Fx>) -> Set<int>
    decreases fx.len()
{
    if fx.len() == 0 { Set::empty() } else {
        let u = unsynced(fx.drop_last());
        match fx.last() {
            Fx::Write { fid, ok } => u.insert(fid),
            Fx::Sync { fid, ok } => if ok { u.remove(fid) } else { u },
            _ => u,
        }
    }
}
/// C04: a successful acknowledgement is only ever emitted when nothing is unsynced
pub open spec fn acks_sound(fx: Seq<Fx>) -> bool {
    forall|p: int| 0 <= p < fx.len() && (#[trigger] fx[p] matches Fx::Ack { ok: true, .. }) ==> unsynced(fx.take(p)) =~= Set::empty()
}
/// C08: a chunk file is only unlinked when nothing is unsynced
pub open spec fn unlinks_sound(fx: Seq<Fx>) -> bool {
    forall|p: int| 0 <= p < fx.len() && (#[trigger] fx[p] is Unlink) ==> unsynced(fx.take(p)) =~= Set::empty()
}

pub proof fn lemma_push(fx: Seq<Fx>, e: Fx)
    ensures
        fx.push(e).drop_last() == fx, fx.push(e).last() == e,
        fx.push(e).take(fx.len() as int) == fx,
        forall|p: int| 0 <= p < fx.len() ==> #[trigger] fx.push(e).take(p) == fx.take(p),
        forall|p: int| 0 <= p < fx.len() ==> #[trigger] fx.push(e)[p] == fx[p],
{
    assert(fx.push(e).drop_last() =~= fx);
    assert(fx.push(e).take(fx.len() as int) =~= fx);
    assert forall|p: int| 0 <= p < fx.len() implies #[trigger] fx.push(e).take(p) == fx.take(p) by { assert(fx.push(e).take(p) =~= fx.take(p)); }
}

// ---------------- extracted items ----------------
pub struct FileEntry {
    pub starting_offset: u64,
    pub f: Arc<File>,
    pub sync_id: u64,
}
pub struct WriteRequest<C: Callback> {
    pub upto_offset: u64,
    pub data: Vec<u8>,
    pub sync: bool,
    pub callback: Option<C>,
}
pub enum WorkerRequest<C: Callback> {
    AppendFile(FileEntry),
    RemoveChunks { chunk_paths: Vec<String> },
    Write(WriteRequest<C>),
}
pub struct SeqRequest<C: Callback> { pub seq: u64, pub req: WorkerRequest<C> }

#[verifier::reject_recursive_types(C)]
pub struct FlushWorker<C: Callback> {
    pub rx: Receiver<SeqRequest<C>>,
    pub files: Vec<FileEntry>,
    pub fx: Ghost<Seq<Fx>>,
}


/// every file with unsynced data is still tracked by the worker
pub open spec fn covered(fx: Seq<Fx>, files: Seq<FileEntry>) -> bool {
    forall|x: int| unsynced(fx).contains(x) ==> exists|j: int| 0 <= j < files.len() && #[trigger] files[j].f.fid() == x
}
pub open spec fn extends(new: Seq<Fx>, old: Seq<Fx>) -> bool {
    new.len() >= old.len() && forall|p: int| 0 <= p < old.len() ==> #[trigger] new[p] == old[p]
}
/// events added by a sync pass are neither acknowledgements, unlinks nor writes
pub open spec fn quiet_since(new: Seq<Fx>, n: nat) -> bool {
    forall|p: int| n <= p < new.len() ==> !(#[trigger] new[p] is Ack) && !(new[p] is Unlink) && !(new[p] is Write)
}
pub proof fn lemma_extends_take(new: Seq<Fx>, old: Seq<Fx>)
    requires extends(new, old)
    ensures forall|p: int| 0 <= p <= old.len() ==> #[trigger] new.take(p) == old.take(p)
{
    assert forall|p: int| 0 <= p <= old.len() implies #[trigger] new.take(p) == old.take(p) by { assert(new.take(p) =~= old.take(p)); }
}
/// pushing an event that is not a successful Ack/Unlink keeps both soundness predicates
pub proof fn lemma_push_keeps_sound(fx: Seq<Fx>, e: Fx)
    requires acks_sound(fx), unlinks_sound(fx),
        (e matches Fx::Ack { ok: true, .. }) || e is Unlink ==> unsynced(fx) =~= Set::empty(),
    ensures acks_sound(fx.push(e)), unlinks_sound(fx.push(e)), extends(fx.push(e), fx),
        unsynced(fx.push(e)) == (match e { Fx::Write { fid, ok } => unsynced(fx).insert(fid), Fx::Sync { fid, ok } => if ok { unsynced(fx).remove(fid) } else { unsynced(fx) }, _ => unsynced(fx) }),
{
    lemma_push(fx, e);
    let n = fx.push(e);
    assert forall|p: int| 0 <= p < n.len() && (#[trigger] n[p] matches Fx::Ack { ok: true, .. }) implies unsynced(n.take(p)) =~= Set::empty() by {
        if p < fx.len() { assert(n.take(p) == fx.take(p)); assert(n[p] == fx[p]); } else { assert(n.take(p) == fx); }
    }
    assert forall|p: int| 0 <= p < n.len() && (#[trigger] n[p] is Unlink) implies unsynced(n.take(p)) =~= Set::empty() by {
        if p < fx.len() { assert(n.take(p) == fx.take(p)); assert(n[p] == fx[p]); } else { assert(n.take(p) == fx); }
    }
}

impl<C: Callback> FlushWorker<C> {
    pub open spec fn inv(&self) -> bool {
        &&& self.files.len() > 0
        &&& covered(self.fx@, self.files@)
        &&& acks_sound(self.fx@)
        &&& unlinks_sound(self.fx@)
    }

    #[verifier::loop_isolation(false)]
    pub fn sync_all_files(&mut self, offset: u64) -> (r: Result<(), IoError>)
        requires old(self).inv(),
        ensures final(self).inv(),
            extends(final(self).fx@, old(self).fx@), quiet_since(final(self).fx@, old(self).fx@.len()),
            r is Ok ==> unsynced(final(self).fx@) =~= Set::empty(),
    {
        let files = &mut self.files;

        if files.is_empty() {
            return Ok(());
        }

        while files.len() > 1
            invariant files.len() >= 1, covered(self.fx@, files@), acks_sound(self.fx@), unlinks_sound(self.fx@),
                extends(self.fx@, old(self).fx@), quiet_since(self.fx@, old(self).fx@.len()),
            decreases files.len()
        {
            let ghost before = files@;
            let f = files.remove(0);
            let __r = f.f.sync_data(); proof { lemma_push_keeps_sound(self.fx@, Fx::Sync { fid: f.f.fid(), ok: __r is Ok }); self.fx@ = self.fx@.push(Fx::Sync { fid: f.f.fid(), ok: __r is Ok }); } __r?;
            proof {
                assert forall|x: int| unsynced(self.fx@).contains(x) implies exists|j: int| 0 <= j < files@.len() && #[trigger] files@[j].f.fid() == x by {
                    let j0 = choose|j: int| 0 <= j < before.len() && #[trigger] before[j].f.fid() == x;
                    assert(j0 != 0);
                    assert(files@[j0 - 1].f.fid() == x);
                }
            }
        }

        let f = &mut files[0];

        {
            proof { lemma_push_keeps_sound(self.fx@, Fx::SetEvictable); self.fx@ = self.fx@.push(Fx::SetEvictable); }
        }

        let __r = files[0].f.sync_data(); proof { lemma_push_keeps_sound(self.fx@, Fx::Sync { fid: files[0].f.fid(), ok: __r is Ok }); self.fx@ = self.fx@.push(Fx::Sync { fid: files[0].f.fid(), ok: __r is Ok }); } __r?;
        files[0].sync_id = offset;
        proof {
            assert forall|x: int| !unsynced(self.fx@).contains(x) by { }
        }

        Ok(())
    }
}
}
fn main() {}
