#![feature(allocator_api)]
use vstd::prelude::*;
use vstd::std_specs::cmp::*;
use vstd::laws_cmp::*;
use std::collections::BTreeMap;
use core::cmp::Ordering;
use core::alloc::Allocator;
verus! {

pub open spec fn lt<K: Ord>(a: K, b: K) -> bool { a.cmp_spec(&b) == Ordering::Less }
pub open spec fn le<K: Ord>(a: K, b: K) -> bool { a.cmp_spec(&b) != Ordering::Greater }

pub open spec fn is_min_key<K: Ord, V>(m: Map<K, V>, k: K) -> bool {
    m.contains_key(k) && forall|j: K| m.contains_key(j) ==> le(k, j)
}

pub assume_specification<K: Ord, V, A: Allocator + Clone>[ BTreeMap::<K, V, A>::pop_first ](m: &mut BTreeMap<K, V, A>) -> (r: Option<(K, V)>)
    ensures
        obeys_cmp_spec::<K>() ==> match r {
            None => old(m)@.dom().is_empty() && final(m)@ == old(m)@,
            Some((k, v)) => is_min_key(old(m)@, k) && old(m)@[k] == v && final(m)@ == old(m)@.remove(k),
        };

pub assume_specification<K: Ord, V, A: Allocator + Clone>[ BTreeMap::<K, V, A>::first_key_value ](m: &BTreeMap<K, V, A>) -> (r: Option<(&K, &V)>)
    ensures
        obeys_cmp_spec::<K>() ==> match r {
            None => m@.dom().is_empty(),
            Some((k, v)) => is_min_key(m@, *k) && m@[*k] == *v,
        };

fn t(m: &mut BTreeMap<u64, u64>) 
{
    let a = m.first_key_value();
    let r = m.pop_first();
}
}
fn main() {}
