use crate::raft_log::state_machine::raft_log_state::RaftLogState;
use crate::Types;

#[derive(Debug, Clone, PartialEq, Eq, Default)]
pub(crate) struct KTypes;

pub(crate) struct NoCb;
impl crate::Callback for NoCb { fn send(self, _res: Result<(), std::io::Error>) {} }

impl Types for KTypes {
    type LogId = (u64, u64);
    type LogPayload = u8;
    type Vote = (u64, u64);
    type Callback = NoCb;
    type UserData = u8;
    fn log_index(log_id: &Self::LogId) -> u64 { log_id.1 }
    fn payload_size(payload: &Self::LogPayload) -> u64 { *payload as u64 }
}

fn any_state() -> RaftLogState<KTypes> {
    RaftLogState { vote: kani::any(), last: kani::any(), committed: kani::any(), purged: kani::any(), user_data: kani::any() }
}

#[kani::proof]
fn k_append_contract() {
    let mut s = any_state();
    let old = s.clone();
    let id: (u64, u64) = kani::any();
    kani::assume(old.last.map(|l| l.1 < u64::MAX).unwrap_or(true));
    let r = s.append(&id);
    let reject = Some(id) <= old.last || (old.last.is_some() && old.last.unwrap().1 + 1 != id.1);
    assert!(r.is_err() == reject);
    if r.is_err() { assert!(s == old); } else { assert!(s.last == Some(id)); assert!(s.vote == old.vote && s.committed == old.committed && s.purged == old.purged); }
}

#[kani::proof]
fn k_next_log_index_overflow() {
    let id: Option<(u64, u64)> = kani::any();
    let _ = KTypes::next_log_index(id.as_ref());
}
