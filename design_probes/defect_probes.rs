use std::io;
use crate::api::raft_log_writer::RaftLogWriter;
use crate::api::raft_log_writer::blocking_flush;
use crate::testing::ss;
use crate::tests::context::TestContext;

#[test]
fn probe_d1_rejected_append_then_reopen() -> Result<(), io::Error> {
    let ctx = TestContext::new()?;
    {
        let mut rl = ctx.new_raft_log()?;
        rl.append([((1, 1), ss("a"))])?;
        let r = rl.append([((1, 1), ss("XXXX"))]);
        println!("D1: second append: {:?}", r.is_err());
        let got = rl.read(0, 10).collect::<Result<Vec<_>, _>>()?;
        println!("D2: read after rejected append: {:?}", got);
        let st = rl.stat();
        println!("D3: cache items {} size {}", st.payload_cache_item_count, st.payload_cache_size);
        blocking_flush(&mut rl)?;
    }
    let r = ctx.new_raft_log();
    println!("D1: reopen: {:?}", r.as_ref().map(|_| ()).map_err(|e| e.to_string()));
    Ok(())
}

#[test]
fn probe_d1b_rejected_commit_then_reopen() -> Result<(), io::Error> {
    let ctx = TestContext::new()?;
    {
        let mut rl = ctx.new_raft_log()?;
        rl.commit((2, 2))?;
        let r = rl.commit((1, 1));
        println!("D1b: commit backwards: {:?}", r.is_err());
        blocking_flush(&mut rl)?;
    }
    let r = ctx.new_raft_log();
    println!("D1b: reopen: {:?}", r.as_ref().map(|_| ()).map_err(|e| e.to_string()));
    Ok(())
}

#[test]
fn probe_d4_truncate0_after_purge() -> Result<(), io::Error> {
    let ctx = TestContext::new()?;
    let mut rl = ctx.new_raft_log()?;
    rl.append([((1, 0), ss("a")), ((1, 1), ss("b")), ((1, 2), ss("c"))])?;
    rl.purge((1, 1))?;
    let r = std::panic::catch_unwind(std::panic::AssertUnwindSafe(|| rl.truncate(0).map(|_| ())));
    println!("D4: truncate(0) after purge: {:?}", r.map(|x| x.map_err(|e| e.to_string())).map_err(|_| "PANIC"));
    Ok(())
}

#[test]
fn probe_d5_read_from_gt_to() -> Result<(), io::Error> {
    let ctx = TestContext::new()?;
    let mut rl = ctx.new_raft_log()?;
    rl.append([((1, 0), ss("a")), ((1, 1), ss("b")), ((1, 2), ss("c"))])?;
    let r = std::panic::catch_unwind(std::panic::AssertUnwindSafe(|| rl.read(2, 1).count()));
    println!("D5: read(2,1): {:?}", r.map_err(|_| "PANIC"));
    Ok(())
}

#[test]
fn probe_d6_index_max() -> Result<(), io::Error> {
    let ctx = TestContext::new()?;
    let mut rl = ctx.new_raft_log()?;
    rl.append([((1, u64::MAX), ss("a"))])?;
    let r = std::panic::catch_unwind(std::panic::AssertUnwindSafe(|| rl.append([((2, 0), ss("b"))]).map(|_| ())));
    println!("D6: append after index MAX: {:?}", r.map(|x| x.map_err(|e| e.to_string())).map_err(|_| "PANIC"));
    let ctx = TestContext::new()?;
    let mut rl = ctx.new_raft_log()?;
    let r = std::panic::catch_unwind(std::panic::AssertUnwindSafe(|| {rl.purge((1, u64::MAX))?; rl.purge((1, 5)).map(|_| ())}));
    println!("D6b: purge MAX then purge: {:?}", r.map(|x| x.map_err(|e| e.to_string())).map_err(|_| "PANIC"));
    Ok(())
}

#[test]
fn probe_d8_lower_term_after_truncate_evicted() -> Result<(), io::Error> {
    let mut ctx = TestContext::new()?;
    ctx.config.chunk_max_records = Some(4);
    ctx.config.log_cache_max_items = Some(0);
    let mut rl = ctx.new_raft_log()?;
    // chunk 0: State + 3 appends of term 7 -> closes
    rl.append([((5, 0), ss("a0")), ((7, 1), ss("a1")), ((7, 2), ss("a2"))])?;
    blocking_flush(&mut rl)?;
    rl.wait_worker_idle();
    println!("D8: stat after flush: evictable={:?}", rl.stat().payload_cache_last_evictable);
    // follower truncates 1.. and gets older-term entries from new leader
    rl.truncate(1)?;
    rl.append([((6, 1), ss("b1"))])?;
    let got = rl.read(0, 10).map(|r| r.map_err(|e| e.to_string())).collect::<Vec<_>>();
    println!("D8: read before flush: {:?}", got);
    blocking_flush(&mut rl)?;
    rl.wait_worker_idle();
    let got = rl.read(0, 10).map(|r| r.map_err(|e| e.to_string())).collect::<Vec<_>>();
    println!("D8: read after flush: {:?}", got);
    Ok(())
}

#[test]
fn probe_d10_empty_last_chunk() -> Result<(), io::Error> {
    let mut ctx = TestContext::new()?;
    ctx.config.chunk_max_records = Some(4);
    let end;
    {
        let mut rl = ctx.new_raft_log()?;
        rl.append([((5, 0), ss("a0")), ((7, 1), ss("a1"))])?;
        blocking_flush(&mut rl)?;
        end = rl.stat().open_chunk.global_end;
    }
    // crash right after create_new() of next chunk, before its State record is written
    let p = ctx.config.chunk_path(crate::ChunkId(end));
    std::fs::File::create(&p)?;
    let r = std::panic::catch_unwind(std::panic::AssertUnwindSafe(|| ctx.new_raft_log().map(|_| ())));
    println!("D10: open with empty newest chunk: {:?}", r.map(|x| x.map_err(|e| e.to_string())).map_err(|_| "PANIC"));
    Ok(())
}

#[test]
fn probe_d10b_cut_inside_first_record() -> Result<(), io::Error> {
    let ctx = TestContext::new()?;
    {
        let mut rl = ctx.new_raft_log()?;
        rl.append([((5, 0), ss("a0"))])?;
        blocking_flush(&mut rl)?;
    }
    let p = ctx.config.chunk_path(crate::ChunkId(0));
    let f = std::fs::OpenOptions::new().write(true).open(&p)?;
    f.set_len(7)?;
    let r = std::panic::catch_unwind(std::panic::AssertUnwindSafe(|| ctx.new_raft_log().map(|_| ())));
    println!("D10b: open with cut inside first record: {:?}", r.map(|x| x.map_err(|e| e.to_string())).map_err(|_| "PANIC"));
    Ok(())
}

#[test]
fn probe_d12_len_prefix_flip_in_last_chunk() -> Result<(), io::Error> {
    use std::os::unix::fs::FileExt;
    let ctx = TestContext::new()?;
    {
        let mut rl = ctx.new_raft_log()?;
        rl.append([((5, 0), ss("a0")), ((5, 1), ss("a1")), ((5, 2), ss("a2"))])?;
        blocking_flush(&mut rl)?;
    }
    let p = ctx.config.chunk_path(crate::ChunkId(0));
    let f = std::fs::OpenOptions::new().read(true).write(true).open(&p)?;
    // record 0: State 18 bytes; record1 Append at 18: tag(4) logid(16) len(4) => len at 18+20
    f.write_at(&[0x40], 18 + 20)?;
    let r = std::panic::catch_unwind(std::panic::AssertUnwindSafe(|| {
        let rl = ctx.new_raft_log()?;
        let v = rl.read(0, 10).collect::<Result<Vec<_>, _>>()?;
        Ok::<_, io::Error>(format!("{:?} last={:?}", v, rl.log_state().last()))
    }));
    println!("D12: open after flipping a length-prefix bit of first entry: {:?}", r.map(|x| x.map_err(|e| e.to_string())).map_err(|_| "PANIC"));
    Ok(())
}

#[test]
fn probe_d11_middle_chunk_modified_on_refused_open() -> Result<(), io::Error> {
    use std::os::unix::fs::FileExt;
    let mut ctx = TestContext::new()?;
    ctx.config.chunk_max_records = Some(3);
    {
        let mut rl = ctx.new_raft_log()?;
        rl.append([((5, 0), ss("a0")), ((5, 1), ss("a1")), ((5, 2), ss("a2")), ((5, 3), ss("a3")), ((5, 4), ss("a4"))])?;
        blocking_flush(&mut rl)?;
    }
    let p = ctx.config.chunk_path(crate::ChunkId(0));
    let before = std::fs::metadata(&p)?.len();
    let f = std::fs::OpenOptions::new().read(true).write(true).open(&p)?;
    f.write_at(&[0x40], 18 + 20)?;
    let r = ctx.new_raft_log().map(|_| ()).map_err(|e| e.to_string());
    let after = std::fs::metadata(&p)?.len();
    println!("D11: refused={:?}; first chunk len before={} after={}", r, before, after);
    Ok(())
}

#[test]
fn probe_d14_segment_after_rotation() -> Result<(), io::Error> {
    let mut ctx = TestContext::new()?;
    ctx.config.chunk_max_records = Some(2);
    let mut rl = ctx.new_raft_log()?;
    let seg = rl.append([((5, 0), ss("a0"))])?;
    println!("D14: returned segment {:?}; stat closed={:?}", seg, rl.stat().closed_chunks.iter().map(|c| (c.global_start, c.global_end)).collect::<Vec<_>>());
    Ok(())
}

#[test]
fn probe_d13_purge_leaves_obsolete_chunk() -> Result<(), io::Error> {
    let mut ctx = TestContext::new()?;
    ctx.config.chunk_max_records = Some(4);
    let mut rl = ctx.new_raft_log()?;
    rl.append([((5, 0), ss("a0")), ((5, 1), ss("a1")), ((5, 2), ss("a2"))])?; // chunk0 closes, state.last=(5,2)
    rl.truncate(1)?;                                   // last=(5,0)
    rl.append([((5, 1), ss("b1"))])?;                  // hmm same id different payload
    rl.purge((5, 1))?;                                 // everything purged
    blocking_flush(&mut rl)?;
    rl.wait_worker_idle();
    println!("D13: closed chunks after purge+flush: {:?}; state={:?}", rl.stat().closed_chunks.iter().map(|c| (c.global_start, c.log_state.last)).collect::<Vec<_>>(), rl.log_state());
    Ok(())
}
