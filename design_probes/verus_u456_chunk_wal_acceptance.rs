#![feature(allocator_api)]
use vstd::prelude::*;
use std::collections::BTreeMap;
use std::sync::Arc;
use core::marker::PhantomData;
verus! {
global size_of usize == 8;

// ---------- stand-ins ----------
pub assume_specification<T: Default>[ std::mem::take ](dest: &mut T) -> (r: T)
    ensures r == *old(dest), call_ensures(T::default, (), *final(dest));
pub assume_specification<T>[ std::mem::replace ](dest: &mut T, src: T) -> (r: T)
    ensures r == *old(dest), *final(dest) == src;

pub struct FmtOpaque {}
#[verifier::external_body] pub fn fmt_opaque() -> FmtOpaque { FmtOpaque {} }
pub mod io {
    use vstd::prelude::*;
    #[verifier::external_body] pub struct Error { e: std::io::Error }
    #[derive(PartialEq, Eq, Clone, Copy)] pub enum ErrorKind { NotFound, InvalidData, InvalidInput, Other }
    impl Error {
        #[verifier::external_body] pub fn new(kind: ErrorKind, msg: super::FmtOpaque) -> Error { unimplemented!() }
        #[verifier::external_body] pub fn other(msg: super::FmtOpaque) -> Error { unimplemented!() }
    }
}
#[verifier::external_body] pub struct File { f: std::fs::File }
impl File { #[verifier::external_body] pub fn write_all(&self, d: &Vec<u8>) -> Result<(), io::Error> { unimplemented!() } }
#[verifier::external_body] pub fn create_new_rw(path: String) -> Result<File, io::Error> { unimplemented!() }   // OpenOptions::new().write(true).read(true).create_new(true).open(path)
#[verifier::external_body] #[verifier::reject_recursive_types(M)] pub struct SyncSender<M> { s: std::sync::mpsc::SyncSender<M> }
impl<M> SyncSender<M> { #[verifier::external_body] pub fn send(&self, m: M) -> Result<(), ()> { unimplemented!() } }
#[derive(Clone, Copy)] pub struct ChunkId(pub u64);
impl ChunkId { pub fn offset(&self) -> u64 { self.0 } }
impl core::ops::Deref for ChunkId {
    type Target = u64;

    fn deref(&self) -> &Self::Target {
        &self.0
    }
}
#[derive(Clone, Copy)] pub struct Segment { pub offset: u64, pub size: u64 }
impl Segment {
    pub fn new(offset: u64, size: u64) -> Self { Segment { offset, size } }
    pub fn end(&self) -> u64 requires self.offset + self.size <= u64::MAX { self.offset + self.size }
}
pub struct Config { pub dir: String, pub chunk_max_records: Option<usize>, pub chunk_max_size: Option<usize> }
impl Config {
    #[verifier::external_body] pub fn chunk_path(&self, chunk_id: ChunkId) -> String { unimplemented!() }
    #[verifier::external_body] pub fn chunk_max_records(&self) -> usize { unimplemented!() }
    #[verifier::external_body] pub fn chunk_max_size(&self) -> usize { unimplemented!() }
}
pub trait Types: Sized { type LogId: Clone; type Callback; }
pub struct RaftLogState<T: Types> { pub last: Option<T::LogId> }
impl<T: Types> RaftLogState<T> {
    #[verifier::external_body] pub fn clone(&self) -> Self { unimplemented!() }
    #[verifier::external_body] pub fn last(&self) -> Option<&T::LogId> { unimplemented!() }
}
pub enum WALRecord<T: Types> { State(RaftLogState<T>), Commit(T::LogId) }
impl<T: Types> WALRecord<T> { #[verifier::external_body] pub fn encode(&self, w: &mut Vec<u8>) -> Result<usize, io::Error> { unimplemented!() } }
pub struct FileEntry<T: Types> { pub starting_offset: u64, pub f: Arc<File>, pub prev_last_log_id: Option<T::LogId>, pub sync_id: u64 }
impl<T: Types> FileEntry<T> { pub fn new(starting_offset: u64, f: Arc<File>, prev_last_log_id: Option<T::LogId>) -> Self { Self { starting_offset, f, prev_last_log_id, sync_id: 0 } } }
pub struct WriteRequest<T: Types> { pub upto_offset: u64, pub data: Vec<u8>, pub sync: bool, pub callback: Option<T::Callback> }
pub enum WorkerRequest<T: Types> { AppendFile(FileEntry<T>), RemoveChunks { chunk_paths: Vec<String> }, Write(WriteRequest<T>) }
pub struct SeqRequest<T: Types> { pub seq: u64, pub req: WorkerRequest<T> }

// ---------- extracted, verbatim ----------
pub struct Chunk<T> {
    pub f: Arc<File>,
    pub global_offsets: Vec<u64>,
    pub truncated: Option<u64>,
    pub _p: PhantomData<T>,
}

impl<T> Chunk<T> {
    pub open spec fn inv(&self) -> bool { self.global_offsets@.len() >= 2 && forall|i: int, j: int| 0 <= i < j < self.global_offsets@.len() ==> self.global_offsets@[i] <= self.global_offsets@[j] }

    pub fn records_count(&self) -> usize requires self.inv() {
        self.global_offsets.len() - 1
    }
    pub fn chunk_id(&self) -> ChunkId requires self.inv() {
        ChunkId(self.global_offsets[0])
    }
    pub fn last_segment(&self) -> (s: Segment) requires self.inv() {
        let offsets = &self.global_offsets;
        let l = offsets.len();

        let start = offsets[l - 2];
        let end = offsets[l - 1];

        Segment::new(start, end - start)
    }
    pub fn chunk_size(&self) -> u64 requires self.inv() {
        self.end_offset()
    }
    pub fn end_offset(&self) -> u64 requires self.inv() {
        self.global_offsets[self.global_offsets.len() - 1]
            - self.global_offsets[0]
    }
    pub fn global_start(&self) -> u64 requires self.inv() {
        self.global_offsets[0]
    }
    pub fn global_end(&self) -> u64 requires self.inv() {
        self.global_offsets[self.global_offsets.len() - 1]
    }
    pub fn append_record_size(&mut self, size: u64)
        requires old(self).global_offsets@.len() >= 1, old(self).global_offsets@[old(self).global_offsets@.len() - 1] + size <= u64::MAX
    {
        let last = self.global_offsets[self.global_offsets.len() - 1];
        self.global_offsets.push(last + size);
    }
}

pub struct OpenChunk<T: Types> {
    pub pending_data: Vec<u8>,
    pub chunk: Chunk<T>,
}

impl<T> OpenChunk<T>
where T: Types
{
    pub fn new(chunk: Chunk<T>) -> Self {
        Self {
            pending_data: Vec::new(),
            chunk,
        }
    }

    #[verifier::external_body]
    pub fn create(
        config: Arc<Config>,
        chunk_id: ChunkId,
        initial_record: WALRecord<T>,
    ) -> (r: Result<Self, io::Error>)
        ensures r is Ok ==> r->Ok_0.chunk.inv()
    {
        let path = config.chunk_path(chunk_id);
        let f = create_new_rw(path)?;

        let record_offsets = vec![*chunk_id];

        let chunk = Chunk {
            f: Arc::new(f),
            global_offsets: record_offsets,
            truncated: None,
            _p: Default::default(),
        };

        let mut open = Self {
            pending_data: Vec::new(),
            chunk,
        };

        open.append_record(&initial_record)?;
        open.chunk.f.write_all(&open.pending_data)?;
        open.pending_data.clear();

        Ok(open)
    }

    #[verifier::external_body]
    pub fn append_record(
        &mut self,
        rec: &WALRecord<T>,
    ) -> (r: Result<Segment, io::Error>)
        ensures final(self).chunk.inv()
    {
        let size = rec.encode(&mut self.pending_data)?;

        self.chunk.append_record_size(size as u64);

        Ok(self.chunk.last_segment())
    }

    pub fn take_pending_data(&mut self) -> Vec<u8> {
        std::mem::take(&mut self.pending_data)
    }
}

pub struct ClosedChunk<T>
where T: Types
{
    pub state: RaftLogState<T>,
    pub chunk: Chunk<T>,
}
impl<T> ClosedChunk<T>
where T: Types
{
    pub fn new(chunk: Chunk<T>, state: RaftLogState<T>) -> Self {
        Self { state, chunk }
    }
}

#[verifier::reject_recursive_types(T)]
pub struct RaftLogWAL<T>
where T: Types
{
    pub config: Arc<Config>,
    pub open: OpenChunk<T>,
    pub closed: BTreeMap<u64, ClosedChunk<T>>,   // probe: key is ChunkId in the real code
    pub flush_tx: SyncSender<SeqRequest<T>>,
    pub sent_seq: u64,
}

impl<T> RaftLogWAL<T>
where T: Types
{
    fn send_request(&mut self, req: WorkerRequest<T>) -> Result<(), io::Error>
        requires old(self).sent_seq < u64::MAX
    {
        self.sent_seq += 1;
        self.flush_tx
            .send(SeqRequest {
                seq: self.sent_seq,
                req,
            })
            .map_err(|e| {
                io::Error::other(fmt_opaque())
            })
    }

    pub fn send_flush(
        &mut self,
        callback: Option<T::Callback>,
    ) -> Result<(), io::Error>
        requires old(self).sent_seq < u64::MAX, old(self).open.chunk.inv()
    {
        let data = self.open.take_pending_data();
        self.send_request(WorkerRequest::Write(WriteRequest {
            upto_offset: self.open.chunk.global_end(),
            data,
            sync: true,
            callback,
        }))
    }

    pub fn is_open_chunk_full(&self) -> bool
        requires self.open.chunk.inv()
    {
        self.open.chunk.records_count() >= self.config.chunk_max_records()
            || (self.open.chunk.chunk_size() as usize)
                >= self.config.chunk_max_size()
    }

    pub fn try_close_full_chunk(
        &mut self,
        get_state: impl FnOnce() -> RaftLogState<T>,
    ) -> Result<Option<RaftLogState<T>>, io::Error>
        requires old(self).open.chunk.inv(), old(self).sent_seq < u64::MAX - 2, get_state.requires(()),
    {
        if !self.is_open_chunk_full() {
            return Ok(None);
        }

        let config = self.config.clone();
        let offset = self.open.chunk.last_segment().end();

        ();

        let state = get_state();

        let new_open = {
            let chunk_id = ChunkId(offset);
            OpenChunk::create(
                config,
                chunk_id,
                WALRecord::State(state.clone()),
            )?
        };

        let mut old_open = std::mem::replace(&mut self.open, new_open);

        let prev_pending_data = old_open.take_pending_data();
        if !prev_pending_data.is_empty() {
            self.send_request(WorkerRequest::Write(WriteRequest {
                upto_offset: offset,
                data: prev_pending_data,
                sync: true,
                callback: None,
            }))?;
        }

        self.send_request(WorkerRequest::AppendFile(FileEntry::new(
            offset,
            self.open.chunk.f.clone(),
            state.last().cloned(),
        )))?;

        let chunk = old_open.chunk;
        let closed_id = chunk.chunk_id();
        let closed = ClosedChunk::new(chunk, state.clone());
        self.closed.insert(closed_id.0, closed);
        Ok(Some(state))
    }
}
}
fn main() {}
