// Standalone crate src/lib.rs used to test whether Kani 0.68 can run a loop shaped like
// FlushWorker::run_inner over std::sync::mpsc.  Result in this sandbox:
//   `cargo kani --harness check_run` -> kani-compiler panics
//   (kani-compiler/src/intrinsics.rs:243: assertion failed: matches!(output.kind(), ... I32))
// so the worker loop cannot be given a Kani stand-in.
use std::sync::mpsc::sync_channel;

pub enum Req { W(u8, bool), Other(u8) }

pub fn run(rx: std::sync::mpsc::Receiver<Req>) -> (u32, u32) {
    let mut writes = 0u32; let mut others = 0u32;
    loop {
        let Ok(r) = rx.recv() else { return (writes, others); };
        let Req::W(_d, _s) = r else { others += 1; continue; };
        writes += 1;
        for q in rx.try_iter().take(4) {
            if let Req::W(_, _) = q { writes += 1; } else { others += 1; break; }
        }
    }
}

#[cfg(kani)]
#[kani::proof]
#[kani::unwind(6)]
fn check_run() {
    let (tx, rx) = sync_channel::<Req>(8);
    let n: u8 = kani::any();
    kani::assume(n <= 3);
    let mut i = 0;
    while i < n {
        let r = if kani::any() { Req::W(kani::any(), kani::any()) } else { Req::Other(kani::any()) };
        tx.send(r).unwrap();
        i += 1;
    }
    drop(tx);
    let (w, o) = run(rx);
    assert!(w + o == n as u32);
}
