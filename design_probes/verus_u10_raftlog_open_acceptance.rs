#![feature(allocator_api)]
use vstd::prelude::*;
use std::collections::BTreeMap;
use std::sync::Arc;
verus! {
global size_of usize == 8;
pub struct FmtOpaque {}
#[verifier::external_body] pub fn fmt_opaque() -> FmtOpaque { FmtOpaque {} }
pub mod io {
    use vstd::prelude::*;
    #[verifier::external_body] pub struct Error { e: std::io::Error }
    #[derive(PartialEq, Eq, Clone, Copy)] pub enum ErrorKind { InvalidData, WouldBlock, Other }
    impl Error { #[verifier::external_body] pub fn new(kind: ErrorKind, msg: super::FmtOpaque) -> Error { unimplemented!() } }
}
pub trait ErrorContextExt: Sized { fn context(self, ctx: FmtOpaque) -> Self; }
impl<T> ErrorContextExt for Result<T, io::Error> { #[verifier::external_body] fn context(self, ctx: FmtOpaque) -> Self { unimplemented!() } }

#[derive(Clone, Copy, PartialEq, Eq, PartialOrd, Ord)] pub struct ChunkId(pub u64);
impl ChunkId { pub fn offset(&self) -> (r: u64) ensures r == self.0 { self.0 } }
#[derive(Clone, Copy)] pub struct Segment { pub offset: u64, pub size: u64 }
impl Segment { pub fn new(offset: u64, size: u64) -> Self { Segment { offset, size } } pub fn end(&self) -> (r: Offset) requires self.offset + self.size <= u64::MAX { Offset(self.offset + self.size) } }
pub struct Offset(pub u64);
pub struct Config { pub dir: String }
pub struct FileLock {}
impl FileLock { #[verifier::external_body] pub fn new(config: Arc<Config>) -> Result<Self, io::Error> { unimplemented!() } }
pub trait Types: Sized { type LogId: Clone; }
pub struct RaftLogState<T: Types> { pub last: Option<T::LogId> }
impl<T: Types> RaftLogState<T> { #[verifier::external_body] pub fn clone(&self) -> Self { unimplemented!() } }
pub enum WALRecord<T: Types> { State(RaftLogState<T>), Commit(T::LogId) }
pub struct StateError {}
pub struct PayloadCache<T: Types> { pub last_evictable: Option<T::LogId> }
impl<T: Types> PayloadCache<T> { pub fn set_last_evictable(&mut self, log_id: Option<T::LogId>) { self.last_evictable = log_id; } }
pub struct RaftLogStateMachine<T: Types> { pub payload_cache: PayloadCache<T>, pub log_state: RaftLogState<T> }
impl<T: Types> RaftLogStateMachine<T> {
    #[verifier::external_body] pub fn new(config: &Config) -> Self { unimplemented!() }
    #[verifier::external_body] pub fn apply(&mut self, rec: &WALRecord<T>, chunk_id: ChunkId, segment: Segment) -> Result<(), io::Error> { unimplemented!() }
}
pub struct Chunk<T> { pub global_offsets: Vec<u64>, pub truncated: Option<u64>, pub _p: core::marker::PhantomData<T> }
impl<T: Types> Chunk<T> {
    #[verifier::external_body] pub fn open(config: Arc<Config>, chunk_id: ChunkId) -> (r: Result<(Self, Vec<WALRecord<T>>), io::Error>)
        ensures r is Ok ==> (r->Ok_0).0.global_offsets@.len() == (r->Ok_0).1@.len() + 1 { unimplemented!() }
    #[verifier::external_body] pub fn last_segment(&self) -> Segment requires self.global_offsets@.len() >= 2 { unimplemented!() }
}
pub struct ClosedChunk<T: Types> { pub state: RaftLogState<T>, pub chunk: Chunk<T> }
impl<T: Types> ClosedChunk<T> { pub fn new(chunk: Chunk<T>, state: RaftLogState<T>) -> Self { Self { state, chunk } } }
pub struct OpenChunk<T: Types> { pub chunk: Chunk<T> }
impl<T: Types> OpenChunk<T> {
    pub fn new(chunk: Chunk<T>) -> Self { Self { chunk } }
    #[verifier::external_body] pub fn create(config: Arc<Config>, chunk_id: ChunkId, initial_record: WALRecord<T>) -> Result<Self, io::Error> { unimplemented!() }
}
pub struct RaftLogWAL<T: Types> { pub open: OpenChunk<T> }
impl<T: Types> RaftLogWAL<T> { #[verifier::external_body] pub fn new(config: Arc<Config>, closed: BTreeMap<ChunkId, ClosedChunk<T>>, open: OpenChunk<T>, cache: PayloadCache<T>) -> Self { unimplemented!() } }

pub struct RaftLog<T: Types> {
    pub config: Arc<Config>,
    pub _dir_lock: FileLock,
    pub wal: RaftLogWAL<T>,
    pub state_machine: RaftLogStateMachine<T>,
    pub removed_chunks: Vec<String>,
}

impl<T: Types> RaftLog<T> {
    #[verifier::external_body] pub fn load_chunk_ids(config: &Config) -> Result<Vec<ChunkId>, io::Error> { unimplemented!() }
    #[verifier::external_body] fn ensure_consecutive_chunks(prev_end_offset: Option<u64>, chunk_id: ChunkId) -> Result<(), io::Error> { unimplemented!() }
    #[verifier::external_body] fn reopen_last_closed(closed_chunks: &mut BTreeMap<ChunkId, ClosedChunk<T>>) -> Option<OpenChunk<T>> { unimplemented!() }

    pub fn open(config: Arc<Config>) -> Result<Self, io::Error> {
        let dir_lock = FileLock::new(config.clone())
            .context(fmt_opaque())?;

        let chunk_ids = Self::load_chunk_ids(&config)?;

        let mut sm = RaftLogStateMachine::new(&config);
        let mut closed = BTreeMap::new();
        let mut prev_end_offset = None;
        let mut last_log_id = None;

        // E7: for chunk_id in chunk_ids.iter().copied()
        let mut __i: usize = 0;
        while __i < chunk_ids.len()
            decreases chunk_ids.len() - __i
        {
            let chunk_id = chunk_ids[__i]; __i += 1;
            sm.payload_cache.set_last_evictable(last_log_id);

            Self::ensure_consecutive_chunks(prev_end_offset, chunk_id)?;

            let (chunk, records) = Chunk::open(config.clone(), chunk_id)?;

            // E7: for (i, record) in records.into_iter().enumerate()
            let mut i: usize = 0;
            for record in records
                invariant i + 1 <= chunk.global_offsets@.len(),
            {
                assume(i + 1 < chunk.global_offsets@.len() && chunk.global_offsets@[i as int] <= chunk.global_offsets@[i + 1]);
                let start = chunk.global_offsets[i];
                let end = chunk.global_offsets[i + 1];
                let seg = Segment::new(start, end - start);
                sm.apply(&record, chunk_id, seg)?;
                i += 1;
            }

            assume(chunk.global_offsets@.len() >= 2);
            prev_end_offset = Some(chunk.last_segment().end().0);
            last_log_id = sm.log_state.last.clone();

            closed.insert(
                chunk_id,
                ClosedChunk::new(chunk, sm.log_state.clone()),
            );
        }

        let open = Self::reopen_last_closed(&mut closed);

        let open = if let Some(open) = open {
            open
        } else {
            OpenChunk::create(
                config.clone(),
                ChunkId(prev_end_offset.unwrap_or_default()),
                WALRecord::State(sm.log_state.clone()),
            )?
        };

        let cache = PayloadCache { last_evictable: None }; // sm.payload_cache.clone() (Arc clone) in the real code; E6 turns the shared handle into a value

        let wal = RaftLogWAL::new(config.clone(), closed, open, cache);

        let s = Self {
            config,
            _dir_lock: dir_lock,
            state_machine: sm,
            wal,
            removed_chunks: vec![],
        };

        Ok(s)
    }
}
}
fn main() {}
