// ===== prelude/worker_spec.rs: FlushWorker (copied; ghost effect trace `fx` added, rule E9), effect alphabet, history predicates =====
/// ASSUMED std contracts used by the worker
#[verifier::external_body]
pub fn file_sync_data(f: &File) -> (r: Result<(), io::Error>) { unimplemented!() }
#[verifier::external_body]
pub fn fs_remove_file(path: String) -> (r: Result<(), io::Error>) { unimplemented!() }
/// the payload cache shared with the caller thread (rule E6 on the worker side: only `set_last_evictable` is ever called through it)
#[verifier::external_body]
#[verifier::reject_recursive_types(T)]
pub struct SharedCache<T: Types> { c: core::marker::PhantomData<T> }
#[verifier::external_body]
pub fn shared_set_last_evictable<T: Types>(c: &SharedCache<T>, id: Option<T::LogId>) { unimplemented!() }
#[verifier::external_body]
pub fn done_seq_store(d: &DoneSeq, seq: u64) { unimplemented!() }
/// debug-only request (GetFlushStat): opaque, performs no file-system effect
#[verifier::external_body]
pub fn get_flush_stat_opaque<T: Types>(files: &Vec<FileEntry<T>>, tx: SyncSender<Vec<FlushStat>>) { unimplemented!() }
/// `batch.iter().any(|w| w.sync)` (rule E7: iterator adapter desugared; std-documented meaning of `any`)
#[verifier::external_body]
pub fn batch_any_sync<T: Types>(batch: &Vec<WriteRequest<T>>) -> (r: bool)
    ensures r == (exists|i: int| 0 <= i < batch@.len() && #[trigger] batch@[i].sync)
{ unimplemented!() }
/// `a.max(b)` on u64 (Ord::max is a provided trait method, which assume_specification cannot target; rule E22)
pub fn u64_max(a: u64, b: u64) -> (r: u64) ensures r == (if a >= b { a } else { b }) { if a >= b { a } else { b } }

/// stand-in for std::sync::mpsc::Receiver: the next message is arbitrary, so the worker's contract holds for EVERY request sequence and batch split.
/// ASSUMED (message invariant, established by the only sender, RaftLogWAL::send_request, proved in unit U5 `is_write`): every Write request has sync == true.
#[verifier::external_body]
#[verifier::reject_recursive_types(M)]
pub struct Receiver<M> { r: core::marker::PhantomData<M> }
pub struct RecvError {}
pub open spec fn msg_ok<T: Types>(m: SeqRequest<T>) -> bool { match m.req { WorkerRequest::Write(w) => w.sync, _ => true } }
pub open spec fn deferred_ok<T: Types>(o: Option<SeqRequest<T>>) -> bool { o is Some ==> !(o->Some_0.req is Write) }
impl<T: Types> Receiver<SeqRequest<T>> {
    #[verifier::external_body]
    pub fn recv(&self) -> (r: Result<SeqRequest<T>, RecvError>) ensures r is Ok ==> msg_ok::<T>(r->Ok_0) { unimplemented!() }
    #[verifier::external_body]
    pub fn try_recv(&self) -> (r: Result<SeqRequest<T>, RecvError>) ensures r is Ok ==> msg_ok::<T>(r->Ok_0) { unimplemented!() }
}
/// the user callback: consumed by `send`, so Rust's move semantics give "at most once"
pub trait CallbackSend: Sized { fn send(self, res: Result<(), io::Error>); }
impl<C: Callback> CallbackSend for C { #[verifier::external_body] fn send(self, res: Result<(), io::Error>) { unimplemented!() } }

// ---- effect trace ----
pub enum Fx {
    Write { fid: int, data: Seq<u8>, ok: bool },
    Sync { fid: int, ok: bool },
    /// the eviction boundary is raised; `newest` is the file the worker treats as the still-open chunk
    SetEvictable { newest: int },
    Ack { cb: int, ok: bool },
    Unlink { path: String, ok: bool },
}
//@struct src/raft_log/wal/flush_worker.rs FlushWorker allpub attr=#[verifier::reject_recursive_types(T)] sub=#Arc<RwLock<PayloadCache<T>>>#SharedCache<T># sub=#Arc<AtomicU64>#DoneSeq# addfield=fx:Ghost<Seq<Fx>>

/// files that received a write after their last successful sync
pub open spec fn unsynced(fx: Seq<Fx>) -> Set<int>
    decreases fx.len()
{
    if fx.len() == 0 { Set::empty() } else {
        let u = unsynced(fx.drop_last());
        match fx.last() {
            Fx::Write { fid, data, ok } => u.insert(fid),
            Fx::Sync { fid, ok } => if ok { u.remove(fid) } else { u },
            _ => u,
        }
    }
}
/// C04: a successful acknowledgement is only ever emitted when no file holds data that was written and not successfully synced afterwards
pub open spec fn acks_sound(fx: Seq<Fx>) -> bool {
    forall|p: int| 0 <= p < fx.len() && (#[trigger] fx[p] matches Fx::Ack { ok: true, .. }) ==> unsynced(fx.take(p)) =~= Set::empty()
}
/// C08: a chunk file is only unlinked when nothing is unsynced (the purge record that made it obsolete is durable)
pub open spec fn unlinks_sound(fx: Seq<Fx>) -> bool {
    forall|p: int| 0 <= p < fx.len() && (#[trigger] fx[p] is Unlink) ==> unsynced(fx.take(p)) =~= Set::empty()
}
/// C07: the eviction boundary moves only when every file other than the newest is clean
pub open spec fn evictable_sound(fx: Seq<Fx>) -> bool {
    forall|p: int| 0 <= p < fx.len() && (#[trigger] fx[p] is SetEvictable) ==> unsynced(fx.take(p)).subset_of(set![fx[p]->newest])
}
/// every Write event since position n succeeded (a failed write ends the worker: it must not be skipped over)
pub open spec fn writes_ok_since(fx: Seq<Fx>, n: int) -> bool {
    forall|p: int| n <= p < fx.len() ==> (#[trigger] fx[p] matches Fx::Write { ok, .. } ==> ok)
}
pub open spec fn covered<T: Types>(fx: Seq<Fx>, files: Seq<FileEntry<T>>) -> bool {
    forall|x: int| unsynced(fx).contains(x) ==> exists|j: int| 0 <= j < files.len() && #[trigger] files[j].f.fid() == x
}
pub open spec fn extends(new: Seq<Fx>, old: Seq<Fx>) -> bool {
    new.len() >= old.len() && forall|p: int| 0 <= p < old.len() ==> #[trigger] new[p] == old[p]
}
/// events added since position n are neither acknowledgements, unlinks nor writes
pub open spec fn quiet_since(new: Seq<Fx>, n: nat) -> bool {
    forall|p: int| n <= p < new.len() ==> !(#[trigger] new[p] is Ack) && !(new[p] is Unlink) && !(new[p] is Write)
}
pub proof fn lemma_push(fx: Seq<Fx>, e: Fx)
    ensures
        fx.push(e).drop_last() == fx, fx.push(e).last() == e,
        fx.push(e).take(fx.len() as int) == fx,
        forall|p: int| 0 <= p < fx.len() ==> #[trigger] fx.push(e).take(p) == fx.take(p),
        forall|p: int| 0 <= p < fx.len() ==> #[trigger] fx.push(e)[p] == fx[p],
{
    assert(fx.push(e).drop_last() =~= fx);
    assert(fx.push(e).take(fx.len() as int) =~= fx);
    assert forall|p: int| 0 <= p < fx.len() implies #[trigger] fx.push(e).take(p) == fx.take(p) by { assert(fx.push(e).take(p) =~= fx.take(p)); }
}
/// the step function of `unsynced`, and preservation of the soundness predicates by an event whose own side condition holds.
/// Its preconditions are exactly the per-event proof obligations of C04 / C07 (and C08 for the *_u variant).
pub proof fn lemma_push_keeps_sound(fx: Seq<Fx>, e: Fx)
    requires acks_sound(fx), evictable_sound(fx),
        (e matches Fx::Ack { ok: true, .. }) ==> unsynced(fx) =~= Set::empty(),
        e is SetEvictable ==> unsynced(fx).subset_of(set![e->newest]),
    ensures acks_sound(fx.push(e)), evictable_sound(fx.push(e)), extends(fx.push(e), fx),
        unsynced(fx.push(e)) == (match e { Fx::Write { fid, data, ok } => unsynced(fx).insert(fid), Fx::Sync { fid, ok } => if ok { unsynced(fx).remove(fid) } else { unsynced(fx) }, _ => unsynced(fx) }),
{
    lemma_push(fx, e);
    let n = fx.push(e);
    assert forall|p: int| 0 <= p < n.len() && (#[trigger] n[p] matches Fx::Ack { ok: true, .. }) implies unsynced(n.take(p)) =~= Set::empty() by {
        if p < fx.len() { assert(n.take(p) == fx.take(p)); assert(n[p] == fx[p]); } else { assert(n.take(p) == fx); }
    }
    assert forall|p: int| 0 <= p < n.len() && (#[trigger] n[p] is SetEvictable) implies unsynced(n.take(p)).subset_of(set![n[p]->newest]) by {
        if p < fx.len() { assert(n.take(p) == fx.take(p)); assert(n[p] == fx[p]); } else { assert(n.take(p) == fx); }
    }
}
pub proof fn lemma_push_keeps_unlinks_sound(fx: Seq<Fx>, e: Fx)
    requires unlinks_sound(fx), e is Unlink ==> unsynced(fx) =~= Set::empty(),
    ensures unlinks_sound(fx.push(e)),
{
    lemma_push(fx, e);
    let n = fx.push(e);
    assert forall|p: int| 0 <= p < n.len() && (#[trigger] n[p] is Unlink) implies unsynced(n.take(p)) =~= Set::empty() by {
        if p < fx.len() { assert(n.take(p) == fx.take(p)); assert(n[p] == fx[p]); } else { assert(n.take(p) == fx); }
    }
}

/// callback ids of the requests of a batch that carry a callback, in request order
pub open spec fn cb_ids<T: Types>(ws: Seq<WriteRequest<T>>) -> Seq<int>
    decreases ws.len()
{
    if ws.len() == 0 { Seq::empty() } else {
        let p = cb_ids::<T>(ws.drop_last());
        match ws.last().callback { Some(c) => p.push(c.cb_id()), None => p }
    }
}
/// callback ids of the Ack events of a trace, in order
pub open spec fn ack_ids(fx: Seq<Fx>) -> Seq<int>
    decreases fx.len()
{
    if fx.len() == 0 { Seq::empty() } else {
        let p = ack_ids(fx.drop_last());
        match fx.last() { Fx::Ack { cb, ok } => p.push(cb), _ => p }
    }
}
/// paths of the Unlink events of a trace, in order
pub open spec fn unlink_paths(fx: Seq<Fx>) -> Seq<String>
    decreases fx.len()
{
    if fx.len() == 0 { Seq::empty() } else {
        let p = unlink_paths(fx.drop_last());
        match fx.last() { Fx::Unlink { path, ok } => p.push(path), _ => p }
    }
}
pub proof fn lemma_unlink_step(fx: Seq<Fx>, n: int, e: Fx)
    requires 0 <= n <= fx.len()
    ensures unlink_paths(fx.push(e).skip(n)) == (match e { Fx::Unlink { path, ok } => unlink_paths(fx.skip(n)).push(path), _ => unlink_paths(fx.skip(n)) })
{
    assert(fx.push(e).skip(n) =~= fx.skip(n).push(e));
    assert(fx.skip(n).push(e).drop_last() =~= fx.skip(n));
}
/// the non-empty data blocks of a batch, in request order (what must reach the file)
pub open spec fn batch_datas<T: Types>(ws: Seq<WriteRequest<T>>) -> Seq<Seq<u8>>
    decreases ws.len()
{
    if ws.len() == 0 { Seq::empty() } else {
        let p = batch_datas::<T>(ws.drop_last());
        if ws.last().data@.len() > 0 { p.push(ws.last().data@) } else { p }
    }
}
/// the data blocks of the Write events of a trace, in order
pub open spec fn written_datas(fx: Seq<Fx>) -> Seq<Seq<u8>>
    decreases fx.len()
{
    if fx.len() == 0 { Seq::empty() } else {
        let p = written_datas(fx.drop_last());
        match fx.last() { Fx::Write { fid, data, ok } => p.push(data), _ => p }
    }
}
pub proof fn lemma_batch_datas_step<T: Types>(ws: Seq<WriteRequest<T>>, k: int)
    requires 0 <= k < ws.len()
    ensures batch_datas::<T>(ws.take(k + 1)) == (if ws[k].data@.len() > 0 { batch_datas::<T>(ws.take(k)).push(ws[k].data@) } else { batch_datas::<T>(ws.take(k)) })
{
    assert(ws.take(k + 1).drop_last() =~= ws.take(k));
}
pub proof fn lemma_written_step(fx: Seq<Fx>, n: int, e: Fx)
    requires 0 <= n <= fx.len()
    ensures written_datas(fx.push(e).skip(n)) == (match e { Fx::Write { fid, data, ok } => written_datas(fx.skip(n)).push(data), _ => written_datas(fx.skip(n)) })
{
    assert(fx.push(e).skip(n) =~= fx.skip(n).push(e));
    assert(fx.skip(n).push(e).drop_last() =~= fx.skip(n));
}
pub proof fn lemma_cb_ids_step<T: Types>(ws: Seq<WriteRequest<T>>, k: int)
    requires 0 <= k < ws.len()
    ensures cb_ids::<T>(ws.take(k + 1)) == (match ws[k].callback { Some(c) => cb_ids::<T>(ws.take(k)).push(c.cb_id()), None => cb_ids::<T>(ws.take(k)) })
{
    assert(ws.take(k + 1).drop_last() =~= ws.take(k));
}
pub proof fn lemma_ack_step(fx: Seq<Fx>, n: int, e: Fx)
    requires 0 <= n <= fx.len()
    ensures ack_ids(fx.push(e).skip(n)) == (match e { Fx::Ack { cb, ok } => ack_ids(fx.skip(n)).push(cb), _ => ack_ids(fx.skip(n)) })
{
    assert(fx.push(e).skip(n) =~= fx.skip(n).push(e));
    assert(fx.skip(n).push(e).drop_last() =~= fx.skip(n));
}
impl<T: Types> FlushWorker<T> {
    /// history invariant of the worker (C04, C07): the tracked list is never empty, every file with unsynced data is still tracked,
    /// every successful ack so far and every boundary update so far was sound
    pub open spec fn inv(&self) -> bool {
        &&& self.files@.len() > 0
        &&& covered::<T>(self.fx@, self.files@)
        &&& acks_sound(self.fx@)
        &&& evictable_sound(self.fx@)
    }
}
