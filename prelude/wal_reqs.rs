// ===== prelude/wal_reqs.rs: worker request types (copied) =====
//@struct src/raft_log/wal/flush_worker.rs FileEntry
//@struct src/raft_log/wal/flush_request.rs SeqRequest
//@struct src/raft_log/wal/flush_request.rs WriteRequest
//@struct src/raft_log/wal/flush_request.rs FlushStat
//@enum src/raft_log/wal/flush_request.rs WorkerRequest
/// stand-in for Arc<AtomicU64> `done_seq` (only read by wait_worker_idle, which is not under contract)
#[verifier::external_body]
pub struct DoneSeq { a: std::sync::Arc<std::sync::atomic::AtomicU64> }
