// ===== prelude/btree.rs: ASSUMED contracts of std BTreeMap methods missing from vstd =====
pub open spec fn is_min_key<K: Ord, V>(m: Map<K, V>, k: K) -> bool {
    m.contains_key(k) && forall|j: K| m.contains_key(j) ==> #[trigger] le(k, j)
}
pub open spec fn is_max_key<K: Ord, V>(m: Map<K, V>, k: K) -> bool {
    m.contains_key(k) && forall|j: K| m.contains_key(j) ==> #[trigger] le(j, k)
}
pub assume_specification<K: Ord, V, A: Allocator + Clone>[ BTreeMap::<K, V, A>::pop_first ](m: &mut BTreeMap<K, V, A>) -> (r: Option<(K, V)>)
    ensures
        obeys_cmp::<K>() ==> match r {
            None => old(m)@.dom().is_empty() && final(m)@ == old(m)@,
            Some((k, v)) => is_min_key(old(m)@, k) && old(m)@[k] == v && final(m)@ == old(m)@.remove(k),
        };
pub assume_specification<K: Ord, V, A: Allocator + Clone>[ BTreeMap::<K, V, A>::pop_last ](m: &mut BTreeMap<K, V, A>) -> (r: Option<(K, V)>)
    ensures
        obeys_cmp::<K>() ==> match r {
            None => old(m)@.dom().is_empty() && final(m)@ == old(m)@,
            Some((k, v)) => is_max_key(old(m)@, k) && old(m)@[k] == v && final(m)@ == old(m)@.remove(k),
        };
pub assume_specification<K: Ord, V, A: Allocator + Clone>[ BTreeMap::<K, V, A>::first_key_value ](m: &BTreeMap<K, V, A>) -> (r: Option<(&K, &V)>)
    ensures
        obeys_cmp::<K>() ==> match r {
            None => m@.dom().is_empty(),
            Some((k, v)) => is_min_key(m@, *k) && m@[*k] == *v,
        };
pub assume_specification<K: Ord, V, A: Allocator + Clone>[ BTreeMap::<K, V, A>::last_key_value ](m: &BTreeMap<K, V, A>) -> (r: Option<(&K, &V)>)
    ensures
        obeys_cmp::<K>() ==> match r {
            None => m@.dom().is_empty(),
            Some((k, v)) => is_max_key(m@, *k) && m@[*k] == *v,
        };
pub uninterp spec fn borrow_cmp<K, Q: ?Sized>(k: K, q: &Q) -> Ordering;
pub broadcast axiom fn axiom_borrow_cmp_same<K: Ord>(k: K, q: &K)
    ensures #[trigger] borrow_cmp::<K, K>(k, q) == k.cmp_spec(q);
pub assume_specification<K, V, A: Allocator + Clone, Q: ?Sized + Ord>[ BTreeMap::<K, V, A>::split_off::<Q> ](m: &mut BTreeMap<K, V, A>, key: &Q) -> (r: BTreeMap<K, V, A>)
    where K: Borrow<Q> + Ord, A: Clone
    ensures
        obeys_cmp::<K>() ==> {
            &&& forall|k: K| #[trigger] final(m)@.contains_key(k) <==> old(m)@.contains_key(k) && borrow_cmp::<K, Q>(k, key) == Ordering::Less
            &&& forall|k: K| #[trigger] r@.contains_key(k) <==> old(m)@.contains_key(k) && borrow_cmp::<K, Q>(k, key) != Ordering::Less
            &&& forall|k: K| final(m)@.contains_key(k) ==> #[trigger] final(m)@[k] == old(m)@[k]
            &&& forall|k: K| r@.contains_key(k) ==> #[trigger] r@[k] == old(m)@[k]
        };

// ---- sum over a finite map (spec library, proved here) -----------------------------------------
pub open spec fn map_sum<K, V>(m: Map<K, V>, f: spec_fn(V) -> nat) -> nat
    decreases m.dom().len()
{
    if m.dom().len() > 0 {
        let k = m.dom().choose();
        f(m[k]) + map_sum(m.remove(k), f)
    } else {
        0
    }
}
pub proof fn lemma_map_sum_remove<K, V>(m: Map<K, V>, f: spec_fn(V) -> nat, k: K)
    requires m.contains_key(k)
    ensures map_sum(m, f) == f(m[k]) + map_sum(m.remove(k), f)
    decreases m.dom().len()
{
    let c = m.dom().choose();
    if c == k {
    } else {
        lemma_map_sum_remove(m.remove(c), f, k);
        lemma_map_sum_remove(m.remove(k), f, c);
        assert(m.remove(c).remove(k) =~= m.remove(k).remove(c));
    }
}
/// form usable after a `pop_*` in a loop header, where the pre-pop map has no name
pub proof fn lemma_map_sum_popped<K, V>(f: spec_fn(V) -> nat, k: K, v: V)
    ensures forall|m: Map<K, V>| m.contains_key(k) && m[k] == v ==> map_sum(m, f) == f(v) + #[trigger] map_sum(m.remove(k), f)
{
    assert forall|m: Map<K, V>| m.contains_key(k) && m[k] == v implies map_sum(m, f) == f(v) + #[trigger] map_sum(m.remove(k), f) by {
        lemma_map_sum_remove(m, f, k);
    }
}
pub proof fn lemma_map_sum_insert<K, V>(m: Map<K, V>, f: spec_fn(V) -> nat, k: K, v: V)
    requires !m.contains_key(k)
    ensures map_sum(m.insert(k, v), f) == f(v) + map_sum(m, f)
{
    lemma_map_sum_remove(m.insert(k, v), f, k);
    assert(m.insert(k, v).remove(k) =~= m);
}
pub proof fn lemma_map_sum_empty<K, V>(f: spec_fn(V) -> nat)
    ensures map_sum(Map::<K, V>::empty(), f) == 0
{
}
