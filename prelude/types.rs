// ===== prelude/types.rs: stand-in for the user-facing `Types` trait (rule E5) =====
// Same associated types and functions as src/api/types.rs; Codec/Debug/Send/'static
// bounds dropped; `spec_*` functions and the laws below are ASSUMPTIONS ON THE USER'S TYPES.
global size_of usize == 8;

pub trait Types: Sized {
    type LogId: Clone + Ord + Eq /*+CODEC: + codeq::Encode + codeq::Decode */;
    type LogPayload: Clone /*+CODEC: + codeq::Encode + codeq::Decode */;
    type Vote: Clone + PartialOrd + Eq /*+CODEC: + codeq::Encode + codeq::Decode */;
    type Callback: Callback;
    type UserData: Clone + Eq /*+CODEC: + codeq::Encode + codeq::Decode */;

    spec fn spec_log_index(log_id: &Self::LogId) -> u64;
    spec fn spec_payload_size(payload: &Self::LogPayload) -> u64;

    fn log_index(log_id: &Self::LogId) -> (r: u64)
        ensures r == Self::spec_log_index(log_id);

    fn payload_size(payload: &Self::LogPayload) -> (r: u64)
        ensures r == Self::spec_payload_size(payload);
/*+CODEC:
    /// ASSUMED magnitudes of the user's encodings (< 2^56 bytes each)
    proof fn law_logid_small(v: Self::LogId) ensures v.enc().len() < 0x100_0000_0000_0000;
    proof fn law_vote_small(v: Self::Vote) ensures v.enc().len() < 0x100_0000_0000_0000;
    proof fn law_payload_small(v: Self::LogPayload) ensures v.enc().len() < 0x100_0000_0000_0000;
    proof fn law_userdata_small(v: Self::UserData) ensures v.enc().len() < 0x100_0000_0000_0000;
*/

//@fn src/api/types.rs Types::next_log_index
props: C01 C16
safety: C16
requires:
  [C16 idx_lt_max] log_id is Some ==> Self::spec_log_index(log_id.unwrap()) < u64::MAX
ensures:
  [C01 next] r == (match log_id { Some(l) => (Self::spec_log_index(l) + 1) as u64, None => 0u64 })
known D6:
  drop: idx_lt_max
//@end
}

/// stand-in for src/raft_log/wal/callback.rs `Callback` (the send itself is an effect, see fx)
pub trait Callback: Sized {
    spec fn cb_id(&self) -> int;
}

// ---- ordering helpers over the element order ---------------------------------------------------
pub open spec fn le<K: Ord>(a: K, b: K) -> bool { a.cmp_spec(&b) != Ordering::Greater }
pub open spec fn lt<K: Ord>(a: K, b: K) -> bool { a.cmp_spec(&b) == Ordering::Less }
/// Some(k) <= bound  (None is below everything)
pub open spec fn le_opt<K: Ord>(k: K, bound: Option<K>) -> bool { match bound { Some(b) => le(k, b), None => false } }
/// a <= b on Option<K> with None least
pub open spec fn ole<K: Ord>(a: Option<K>, b: Option<K>) -> bool { match (a, b) { (None, _) => true, (Some(_), None) => false, (Some(x), Some(y)) => le(x, y) } }
pub open spec fn olt<K: Ord>(a: Option<K>, b: Option<K>) -> bool { match (a, b) { (_, None) => false, (None, Some(_)) => true, (Some(x), Some(y)) => lt(x, y) } }
pub open spec fn omax<K: Ord>(a: Option<K>, b: Option<K>) -> Option<K> { if olt(a, b) { b } else { a } }
pub open spec fn omin<K: Ord>(a: Option<K>, b: Option<K>) -> Option<K> { if olt(b, a) { b } else { a } }

pub open spec fn clone_eq<A: Clone>() -> bool { forall|a: &A, b: A| #[trigger] call_ensures(A::clone, (a,), b) ==> *a == b }

/// laws assumed of the user's types (DESIGN 3.1)
pub open spec fn laws<T: Types>() -> bool {
    &&& obeys_cmp::<T::LogId>()
    &&& obeys_cmp_partial_ord::<T::Vote>()
    &&& clone_eq::<T::LogId>()
    &&& clone_eq::<T::LogPayload>()
    &&& clone_eq::<T::Vote>()
    &&& clone_eq::<T::UserData>()
}
pub open spec fn idx<T: Types>(l: T::LogId) -> u64 { T::spec_log_index(&l) }
pub open spec fn onext<T: Types>(l: Option<T::LogId>) -> int { match l { Some(l) => idx::<T>(l) + 1, None => 0 } }
pub open spec fn oidx_ok<T: Types>(l: Option<T::LogId>) -> bool { match l { Some(l) => idx::<T>(l) < u64::MAX, None => true } }
pub open spec fn opt_ref<K>(o: &Option<K>) -> Option<&K> { match o { Some(b) => Some(b), None => None } }

pub proof fn lemma_le_trans<K: Ord>(a: K, b: K, c: K)
    requires obeys_cmp::<K>(), le(a, b), le(b, c) ensures le(a, c)
{ reveal(obeys_cmp); reveal(obeys_cmp_partial_ord); reveal(obeys_cmp_ord); reveal(obeys_partial_cmp_spec_properties); reveal(obeys_eq_spec_properties); }
pub proof fn lemma_le_lt<K: Ord>(a: K, b: K, c: K)
    requires obeys_cmp::<K>(), le(a, b), lt(b, c) ensures lt(a, c), a != c
{ reveal(obeys_cmp); reveal(obeys_cmp_partial_ord); reveal(obeys_cmp_ord); reveal(obeys_partial_cmp_spec_properties); reveal(obeys_eq_spec_properties); }
pub proof fn lemma_lt_le<K: Ord>(a: K, b: K, c: K)
    requires obeys_cmp::<K>(), lt(a, b), le(b, c) ensures lt(a, c), a != c
{ reveal(obeys_cmp); reveal(obeys_cmp_partial_ord); reveal(obeys_cmp_ord); reveal(obeys_partial_cmp_spec_properties); reveal(obeys_eq_spec_properties); }
pub proof fn lemma_total<K: Ord>(a: K, b: K)
    requires obeys_cmp::<K>() ensures le(a, b) || lt(b, a), lt(a, b) ==> le(a, b), !(lt(a, b) && le(b, a)), le(a, a), lt(a, b) ==> a != b
{ reveal(obeys_cmp); reveal(obeys_cmp_partial_ord); reveal(obeys_cmp_ord); reveal(obeys_partial_cmp_spec_properties); reveal(obeys_eq_spec_properties); }
pub proof fn lemma_le_trans_opt<K: Ord>(a: K, b: K, bound: Option<K>)
    requires obeys_cmp::<K>(), le(a, b), le_opt(b, bound) ensures le_opt(a, bound)
{ reveal(obeys_cmp); reveal(obeys_cmp_partial_ord); reveal(obeys_cmp_ord); reveal(obeys_partial_cmp_spec_properties); reveal(obeys_eq_spec_properties); }
/// the exec comparison `Some(&k) <= bound.as_ref()` is `le_opt`
pub proof fn lemma_le_opt_exec<K: Ord>(k: K, bound: Option<K>)
    requires obeys_cmp::<K>()
    ensures le_opt(k, bound) == (PartialOrdSpec::partial_cmp_spec(&Some(&k), &opt_ref(&bound)) matches Some(Ordering::Less | Ordering::Equal))
{
    broadcast use {lemma_ref_obeys_cmp_spec, lemma_option_obeys_cmp_spec};
    reveal(obeys_cmp); reveal(obeys_cmp_partial_ord); reveal(obeys_cmp_ord);
}
