// ===== prelude/codec.rs: stand-ins for std::io::{Read, Write}, byteorder, codeq (ASSUMED contracts of the dependencies and of the user's codecs) =====
/// std `Option::or` (assumed contract; vstd has none): lets a decoder that merges two decoded options stay decidable (seeded change C12-m7)
pub assume_specification<T>[ Option::<T>::or ](a: Option<T>, b: Option<T>) -> (r: Option<T>)
    ensures r == (if a is Some { a } else { b });
pub mod rw {
    use vstd::prelude::*;
    /// stand-in for std::io::Read: a cursor over a byte stream. `origin` never changes; `rem` is what is not yet consumed;
    /// `after`/`kept` are prophecies (value of rem when this reader value is dropped / the wrapped reader keeps its own prophecies),
    /// which lets a by-value generic `decode<R: Read>(r: R)` called with `&mut cr` say how far it advanced the caller's reader.
    pub trait Read: Sized {
        spec fn origin(&self) -> Seq<u8>;
        spec fn rem(&self) -> Seq<u8>;
        /// number of bytes this reader has handed out so far, as the reader itself counts them (OffsetReader: its `offset` field)
        spec fn pos(&self) -> nat;
        #[verifier::prophetic]
        spec fn after(&self) -> Seq<u8>;
        #[verifier::prophetic]
        spec fn pos_after(&self) -> nat;
        #[verifier::prophetic]
        spec fn kept(&self) -> bool;
        proof fn law_resolved(&self)
            ensures has_resolved(*self) ==> self.after() == self.rem() && self.pos_after() == self.pos() && self.kept();
        /// std::io::Read::read: hands out a prefix of what remains (short reads allowed); 0 only at end of stream or for an empty buffer
        fn read(&mut self, buf: &mut [u8]) -> (r: Result<usize, super::io::Error>)
            ensures
                (*final(self)).after() == (*old(self)).after(), (*final(self)).pos_after() == (*old(self)).pos_after(), (*final(self)).kept() == (*old(self)).kept(), (*final(self)).origin() == (*old(self)).origin(),
                final(buf)@.len() == old(buf)@.len(),
                // std: "if an error is returned then it must be guaranteed that no bytes were read"
                /*[C10,C02 failed_read_consumes_nothing]*/ r is Err ==> (*final(self)).rem() == (*old(self)).rem() && (*final(self)).pos() == (*old(self)).pos(),
                r is Ok ==> {
                    let n = r->Ok_0 as int;
                    &&& n <= old(buf)@.len() && n <= (*old(self)).rem().len()
                    &&& (n == 0 <==> ((*old(self)).rem().len() == 0 || old(buf)@.len() == 0))
                    &&& /*[C10,C02,C01,C07 reader_hands_out_the_next_bytes_of_the_stream]*/ final(buf)@.take(n) == (*old(self)).rem().take(n)
                    &&& /*[C10,C02 reader_advances_by_what_it_handed_out]*/ (*final(self)).rem() == (*old(self)).rem().skip(n)
                    &&& /*[C10,C11,C02,C01,C07 reader_position_counts_exactly_the_bytes_handed_out]*/ (*final(self)).pos() == (*old(self)).pos() + n
                };
        proof fn law_suffix(&self)
            ensures self.rem().len() <= self.origin().len(), self.origin().skip(self.origin().len() - self.rem().len()) == self.rem();
        /// the reader's own count is exact, and a stream is shorter than 2^64 bytes (ASSUMED representation invariant of every reader)
        proof fn law_pos(&self)
            ensures self.pos() + self.rem().len() == self.origin().len(), self.origin().len() <= usize::MAX;
    }
    impl<R: Read> Read for &mut R {
        open spec fn origin(&self) -> Seq<u8> { (**self).origin() }
        open spec fn rem(&self) -> Seq<u8> { (**self).rem() }
        open spec fn pos(&self) -> nat { (**self).pos() }
        #[verifier::prophetic]
        open spec fn after(&self) -> Seq<u8> { (*final(*self)).rem() }
        #[verifier::prophetic]
        open spec fn pos_after(&self) -> nat { (*final(*self)).pos() }
        #[verifier::prophetic]
        open spec fn kept(&self) -> bool {
            &&& (*final(*self)).after() == (**self).after()
            &&& (*final(*self)).pos_after() == (**self).pos_after()
            &&& (*final(*self)).kept() == (**self).kept()
            &&& (*final(*self)).origin() == (**self).origin()
        }
        proof fn law_resolved(&self) {
            if has_resolved(*self) {
                assert(*final(*self) == **self);
            }
        }
        proof fn law_suffix(&self) { (**self).law_suffix(); }
        proof fn law_pos(&self) { (**self).law_pos(); }
        #[verifier::external_body]
        fn read(&mut self, buf: &mut [u8]) -> (r: Result<usize, super::io::Error>) { unimplemented!() }
    }
    /// stand-in for std::io::Write: `written` is everything this writer has accepted so far
    pub trait Write: Sized {
        /// what the underlying sink held when this writer value was created (never changes)
        spec fn base(&self) -> Seq<u8>;
        spec fn written(&self) -> Seq<u8>;
        #[verifier::prophetic]
        spec fn after(&self) -> Seq<u8>;
        #[verifier::prophetic]
        spec fn kept(&self) -> bool;
        proof fn law_resolved(&self)
            ensures has_resolved(*self) ==> self.after() == self.written() && self.kept();
    }
    impl<W: Write> Write for &mut W {
        open spec fn base(&self) -> Seq<u8> { (**self).base() }
        open spec fn written(&self) -> Seq<u8> { (**self).written() }
        #[verifier::prophetic]
        open spec fn after(&self) -> Seq<u8> { (*final(*self)).written() }
        #[verifier::prophetic]
        open spec fn kept(&self) -> bool {
            &&& (*final(*self)).after() == (**self).after()
            &&& (*final(*self)).kept() == (**self).kept()
            &&& (*final(*self)).base() == (**self).base()
        }
        proof fn law_resolved(&self) {
            if has_resolved(*self) {
                assert(*final(*self) == **self);
            }
        }
    }
}

pub open spec fn be32(v: u32) -> Seq<u8> { seq![(v >> 24) as u8, (v >> 16) as u8, (v >> 8) as u8, v as u8] }
/// inverse of be32 on 4 bytes
pub open spec fn u32_of_be(b: Seq<u8>) -> u32 { ((b[0] as u32) << 24) | ((b[1] as u32) << 16) | ((b[2] as u32) << 8) | (b[3] as u32) }
pub proof fn lemma_be32_inv(v: u32)
    ensures u32_of_be(be32(v)) == v, be32(v).len() == 4
{
    let b0 = (v >> 24) as u8; let b1 = (v >> 16) as u8; let b2 = (v >> 8) as u8; let b3 = v as u8;
    assert(be32(v)[0] == b0 && be32(v)[1] == b1 && be32(v)[2] == b2 && be32(v)[3] == b3);
    assert((((v >> 24) as u8 as u32) << 24) | (((v >> 16) as u8 as u32) << 16) | (((v >> 8) as u8 as u32) << 8) | (v as u8 as u32) == v) by (bit_vector);
}
pub uninterp spec fn be64(v: u64) -> Seq<u8>;
/// the checksum of codeq's Crc32fast hasher over a byte string (ASSUMED to be a function of the bytes)
pub uninterp spec fn crc(s: Seq<u8>) -> u64;
pub broadcast axiom fn axiom_be64_len(v: u64) ensures #[trigger] be64(v).len() == 8;

/// consumed prefix of a reader
pub open spec fn consumed<R: rw::Read>(r: &R) -> Seq<u8> { r.origin().take(r.origin().len() - r.rem().len()) }

pub struct BigEndian {}
/// byteorder::ReadBytesExt (blanket impl for every io::Read)
pub trait ReadBytesExt: rw::Read {
    #[verifier::external_body]
    fn read_u32<B>(&mut self) -> (r: Result<u32, io::Error>)
        ensures
            (*final(self)).after() == (*old(self)).after(), (*final(self)).pos_after() == (*old(self)).pos_after(), (*final(self)).kept() == (*old(self)).kept(), (*final(self)).origin() == (*old(self)).origin(),
            match r {
                Ok(v) => (*old(self)).rem().len() >= 4 && (*old(self)).rem().take(4) == be32(v) && (*final(self)).rem() == (*old(self)).rem().skip(4) && (*final(self)).pos() == (*old(self)).pos() + 4,
                Err(e) => (*old(self)).rem().len() < 4 && e.kind == io::ErrorKind::UnexpectedEof,
            }
    { unimplemented!() }
}
impl<R: rw::Read> ReadBytesExt for R {}
/// byteorder::WriteBytesExt
pub trait WriteBytesExt: rw::Write {
    #[verifier::external_body]
    fn write_u32<B>(&mut self, v: u32) -> (r: Result<(), io::Error>)
        ensures
            (*final(self)).after() == (*old(self)).after(), (*final(self)).kept() == (*old(self)).kept(), (*final(self)).base() == (*old(self)).base(),
            r is Ok ==> (*final(self)).written() == (*old(self)).written() + be32(v),
    { unimplemented!() }
}
impl<W: rw::Write> WriteBytesExt for W {}

pub mod codeq {
    use vstd::prelude::*;
    use super::io;
    use super::rw;
    /// the canonical encoding of a value (spec side of codeq::{Encode, Decode})
    pub trait EncSpec: Sized {
        spec fn enc(&self) -> Seq<u8>;
        /// which error kinds a decoder of this type may report for a given remaining input (C09: a complete but invalid record
        /// must not be reported as UnexpectedEof, which recovery treats as an incomplete tail)
        spec fn err_ok(input: Seq<u8>, k: super::IoErrorKind) -> bool;
        /// the parse function: the value a decoder reads from the front of `s` and how many bytes it takes, None when it fails
        /// (the decoder IS this function: contract (F) of Decode::decode)
        spec fn dec(s: Seq<u8>) -> Option<(Self, nat)>;
        /// round trip: an encoding followed by anything parses back to the value and takes exactly the encoding.
        /// PROVED for RaftLogState and WALRecord (prelude/codec_recs.rs), for u8 and Option<T>; ASSUMED for the user's codecs (it is their round-trip law)
        proof fn law_dec_enc(v: Self, rest: Seq<u8>)
            ensures Self::dec(v.enc() + rest) == Some((v, v.enc().len()));
    }
    pub trait Encode: EncSpec {
        fn encode<W: rw::Write>(&self, w: W) -> (res: Result<usize, io::Error>)
            ensures
                // C12: exactly enc(self) is appended and its length is reported
                /*[C12 encode_appends_exactly_enc_and_reports_its_length]*/ res is Ok ==> w.kept() && w.after() == w.written() + self.enc() && res->Ok_0 == self.enc().len();
    }
    pub trait Decode: EncSpec {
        fn decode<R: rw::Read>(r: R) -> (res: Result<Self, io::Error>)
            ensures
                // C12 (S): a decoded value's encoding is exactly the consumed bytes; nothing beyond is consumed
                /*[C12 a_decoded_value_reencodes_to_exactly_the_consumed_bytes]*/ res is Ok ==> r.kept() && r.rem().len() >= res->Ok_0.enc().len() && r.rem().take(res->Ok_0.enc().len() as int) == res->Ok_0.enc() && r.after() == r.rem().skip(res->Ok_0.enc().len() as int)
                    && r.pos_after() == r.pos() + res->Ok_0.enc().len(),
                // C12 (F): decoding is the parse function of the remaining bytes (I/O errors of the underlying reader are not modelled in the
                // codec contracts: byteorder/codeq/user codecs fail only for what the bytes are)
                /*[C12 decode_accepts_exactly_what_the_parse_function_accepts]*/ res is Ok <==> Self::dec(r.rem()) is Some,
                /*[C12 decode_returns_what_the_parse_function_returns]*/ res is Ok ==> Self::dec(r.rem()) == Some((res->Ok_0, res->Ok_0.enc().len())),
                /*[C09 error_kind_tells_incomplete_from_invalid]*/ res is Err ==> Self::err_ok(r.rem(), res->Err_0.kind);
    }
}
use rw::Read as _;
use rw::Write as _;
use codeq::Decode as _;
use codeq::Encode as _;
use codeq::EncSpec as _;

// ---- codeq primitive impls (ASSUMED): u8 is one byte, Option<T> is a tag byte 0 / 1 followed by the value ----
impl codeq::EncSpec for u8 {
    open spec fn enc(&self) -> Seq<u8> { seq![*self] }
    open spec fn err_ok(input: Seq<u8>, k: IoErrorKind) -> bool { true }
    open spec fn dec(s: Seq<u8>) -> Option<(Self, nat)> { if s.len() >= 1 { Some((s[0], 1nat)) } else { None } }
    proof fn law_dec_enc(v: Self, rest: Seq<u8>) { assert((seq![v] + rest)[0] == v); }
}
impl codeq::Encode for u8 { #[verifier::external_body] fn encode<W: rw::Write>(&self, w: W) -> (res: Result<usize, io::Error>) { unimplemented!() } }
impl codeq::Decode for u8 { #[verifier::external_body] fn decode<R: rw::Read>(r: R) -> (res: Result<Self, io::Error>) { unimplemented!() } }
impl<T: codeq::EncSpec> codeq::EncSpec for Option<T> {
    open spec fn enc(&self) -> Seq<u8> { match self { None => seq![0u8], Some(v) => seq![1u8] + v.enc() } }
    open spec fn err_ok(input: Seq<u8>, k: IoErrorKind) -> bool { true }
    open spec fn dec(s: Seq<u8>) -> Option<(Self, nat)> {
        if s.len() < 1 { None } else if s[0] == 0 { Some((None, 1nat)) } else if s[0] == 1 {
            match T::dec(s.skip(1)) { Some((v, n)) => Some((Some(v), 1 + n)), None => None }
        } else { None }
    }
    proof fn law_dec_enc(v: Self, rest: Seq<u8>) {
        match v {
            None => { assert((seq![0u8] + rest)[0] == 0); }
            Some(x) => {
                let s = (seq![1u8] + x.enc()) + rest;
                assert(s[0] == 1);
                assert(s.skip(1) =~= x.enc() + rest);
                T::law_dec_enc(x, rest);
                assert((seq![1u8] + x.enc()).len() == 1 + x.enc().len());
            }
        }
    }
}
impl<T: codeq::Encode> codeq::Encode for Option<T> { #[verifier::external_body] fn encode<W: rw::Write>(&self, w: W) -> (res: Result<usize, io::Error>) { unimplemented!() } }
impl<T: codeq::Decode> codeq::Decode for Option<T> { #[verifier::external_body] fn decode<R: rw::Read>(r: R) -> (res: Result<Self, io::Error>) { unimplemented!() } }

/// codeq::ChecksumReader<Crc32fast, R>: hashes every byte read through it (hashed bytes == origin - rem, where origin starts at creation)
pub struct ChecksumReader<R: rw::Read> { pub inner: R, pub org: Ghost<Seq<u8>> }
impl<R: rw::Read> rw::Read for ChecksumReader<R> {
    open spec fn origin(&self) -> Seq<u8> { self.org@ }
    open spec fn rem(&self) -> Seq<u8> { self.inner.rem() }
    open spec fn pos(&self) -> nat { self.inner.pos() }
    #[verifier::prophetic]
    open spec fn after(&self) -> Seq<u8> { self.inner.after() }
    #[verifier::prophetic]
    open spec fn pos_after(&self) -> nat { self.inner.pos_after() }
    #[verifier::prophetic]
    open spec fn kept(&self) -> bool { self.inner.kept() }
    proof fn law_resolved(&self) { admit(); /* trusted: dropping the wrapper drops the inner reader */ }
    proof fn law_suffix(&self) { admit(); /* trusted representation invariant of the stand-in */ }
    proof fn law_pos(&self) { admit(); /* trusted representation invariant of the stand-in */ }
    #[verifier::external_body]
    fn read(&mut self, buf: &mut [u8]) -> (r: Result<usize, io::Error>) { unimplemented!() }
}
impl<R: rw::Read> ChecksumReader<R> {
    /// reads the 8-byte big-endian checksum from the inner reader and compares it with the hash of everything read so far
    #[verifier::external_body]
    pub fn verify_checksum<F>(self, context: F) -> (r: Result<(), io::Error>)
        ensures match r {
            Ok(()) => self.kept() && self.rem().len() >= 8 && self.rem().take(8) == be64(crc(consumed(&self))) && self.after() == self.rem().skip(8) && self.pos_after() == self.pos() + 8,
            Err(e) => (self.rem().len() < 8 && e.kind == io::ErrorKind::UnexpectedEof) || (self.rem().len() >= 8 && self.rem().take(8) != be64(crc(consumed(&self))) && e.kind == io::ErrorKind::InvalidData),
        }
    { unimplemented!() }
}
/// codeq::ChecksumWriter<Crc32fast, W>
pub struct ChecksumWriter<W: rw::Write> { pub inner: W, pub start: Ghost<Seq<u8>> }
impl<W: rw::Write> rw::Write for ChecksumWriter<W> {
    open spec fn base(&self) -> Seq<u8> { self.start@ }
    open spec fn written(&self) -> Seq<u8> { self.inner.written() }
    #[verifier::prophetic]
    open spec fn after(&self) -> Seq<u8> { self.inner.after() }
    #[verifier::prophetic]
    open spec fn kept(&self) -> bool { self.inner.kept() }
    proof fn law_resolved(&self) { admit(); /* trusted: dropping the wrapper drops the inner writer */ }
}
impl<W: rw::Write> ChecksumWriter<W> {
    /// the bytes written through this wrapper since its creation
    pub open spec fn hashed(&self) -> Seq<u8> { self.inner.written().skip(self.start@.len() as int) }
    /// writes the 8-byte big-endian hash of everything written through the wrapper
    #[verifier::external_body]
    pub fn write_checksum(self) -> (r: Result<usize, io::Error>)
        ensures r is Ok ==> self.kept() && self.after() == self.written() + be64(crc(self.hashed())) && r->Ok_0 == 8,
    { unimplemented!() }
}
/// crate::types::Checksum = codeq::config::Crc32fast
pub struct Checksum {}
impl Checksum {
    #[verifier::external_body]
    pub fn new_reader<R: rw::Read>(r: R) -> (cr: ChecksumReader<R>)
        ensures cr.inner == r, cr.org@ == r.rem()
    { unimplemented!() }
    #[verifier::external_body]
    pub fn new_writer<W: rw::Write>(w: W) -> (cw: ChecksumWriter<W>)
        ensures cw.inner == w, cw.start@ == w.written()
    { unimplemented!() }
}

/// s starts with e  ==>  s == e ++ (rest)
pub proof fn lemma_prefix(s: Seq<u8>, e: Seq<u8>)
    requires e.len() <= s.len(), s.take(e.len() as int) == e
    ensures s == e + s.skip(e.len() as int)
{
    assert(s =~= e + s.skip(e.len() as int));
}
pub proof fn lemma_concat_take_skip(a: Seq<u8>, b: Seq<u8>)
    ensures (a + b).take(a.len() as int) == a, (a + b).skip(a.len() as int) == b, (a + b).len() == a.len() + b.len()
{
    assert((a + b).take(a.len() as int) =~= a);
    assert((a + b).skip(a.len() as int) =~= b);
}
pub proof fn lemma_concat_assoc(a: Seq<u8>, b: Seq<u8>, c: Seq<u8>)
    ensures (a + b) + c == a + (b + c)
{
    assert((a + b) + c =~= a + (b + c));
}
