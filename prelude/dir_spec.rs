// ===== prelude/dir_spec.rs: directory listing stand-ins (rule E23) =====
// `std::fs::read_dir`, `DirEntry::file_name`, `OsString::to_string_lossy`, the `Cow<str> == &str` comparison and the file-name parser work on
// OsString/str bytes, which Verus cannot reason about.  They are replaced by abstract names: a name IS whatever the real parser makes of it.
/// a directory entry's file name, abstractly: what `Config::parse_chunk_file_name` returns for it and whether it is the LOCK file
pub struct FileName { pub parsed: Option<u64>, pub is_lock: bool }
/// ASSUMED ENVIRONMENT: the listing of the store's directory at open time (fixed once the directory lock is held: nobody else adds or removes files)
pub uninterp spec fn dir_listing(dir: String) -> Seq<FileName>;
/// ASSUMED MAGNITUDE: chunk file names carry offsets below 2^62
pub axiom fn axiom_listing_small(dir: String)
    ensures forall|j: int| 0 <= j < dir_listing(dir).len() && (#[trigger] dir_listing(dir)[j]).parsed is Some ==> dir_listing(dir)[j].parsed->Some_0 < 0x4000_0000_0000_0000;
#[verifier::external_body]
pub struct ReadDir { _p: () }
#[verifier::external_body]
pub struct DirEntry { _p: () }
#[verifier::external_body]
pub struct OsName { _p: () }
#[verifier::external_body]
pub struct LossyName { _p: () }
impl ReadDir {
    pub uninterp spec fn items(&self) -> Seq<FileName>;
    pub uninterp spec fn pos(&self) -> nat;
    /// `for entry in entries` (rule E7): is there another entry
    #[verifier::external_body]
    pub fn has_next(&self) -> (r: bool) ensures r == (self.pos() < self.items().len()) { unimplemented!() }
    /// `for entry in entries` (rule E7): the next entry, or the error of reading it
    #[verifier::external_body]
    pub fn next_entry(&mut self) -> (r: Result<DirEntry, io::Error>)
        requires old(self).pos() < old(self).items().len()
        ensures final(self).items() == old(self).items(), final(self).pos() == old(self).pos() + 1, r is Ok ==> r->Ok_0.name() == old(self).items()[old(self).pos() as int]
    { unimplemented!() }
}
impl DirEntry {
    pub uninterp spec fn name(&self) -> FileName;
    #[verifier::external_body]
    pub fn file_name(&self) -> (r: OsName) ensures r.name() == self.name() { unimplemented!() }
}
impl OsName {
    pub uninterp spec fn name(&self) -> FileName;
    #[verifier::external_body]
    pub fn to_string_lossy(&self) -> (r: LossyName) ensures r.name() == self.name() { unimplemented!() }
}
impl LossyName {
    pub uninterp spec fn name(&self) -> FileName;
    /// `fn_str == FileLock::LOCK_FILE_NAME`
    #[verifier::external_body]
    pub fn is_lock_file_name(&self) -> (r: bool) ensures r == self.name().is_lock { unimplemented!() }
}
/// `std::fs::read_dir(&config.dir)`: only the lock holder lists the directory (C13)
#[verifier::external_body]
pub fn dir_read(config: &Config) -> (r: Result<ReadDir, io::Error>)
    requires lock_held(config.dir)
    ensures r is Ok ==> r->Ok_0.items() == dir_listing(config.dir) && r->Ok_0.pos() == 0
{ unimplemented!() }
/// ASSUMED (str parsing): the parser, abstractly.  A full-domain Kani harness relating it to chunk_file_name was tried and ran out of time in symbolic execution of format!/chars/parse (25 min), so the file-name codec stays not under contract
#[verifier::external_body]
pub fn parse_chunk_file_name_of(n: &LossyName) -> (r: Result<u64, InvalidChunkFileName>)
    ensures r is Ok <==> n.name().parsed is Some, r is Ok ==> r->Ok_0 == n.name().parsed->Some_0
{ unimplemented!() }
#[verifier::external_body]
pub struct InvalidChunkFileName { _p: () }
pub open spec fn sorted_ids(v: Seq<ChunkId>) -> bool { forall|i: int, j: int| 0 <= i <= j < v.len() ==> v[i].0 <= v[j].0 }
/// `chunk_ids.sort()` (slice method through DerefMut; rule E22 stand-in).  ASSUMED: a sorted permutation
#[verifier::external_body]
pub fn sort_chunk_ids(v: &mut Vec<ChunkId>)
    ensures sorted_ids(final(v)@), final(v)@.to_multiset() == old(v)@.to_multiset(),
        forall|k: ChunkId| #![trigger final(v)@.contains(k)] #![trigger old(v)@.contains(k)] final(v)@.contains(k) <==> old(v)@.contains(k)
{ unimplemented!() }
/// the ids a listing yields: one per entry that is not the LOCK file and that the parser accepts
pub open spec fn listed(items: Seq<FileName>, n: int, k: ChunkId) -> bool { exists|j: int| 0 <= j < n && #[trigger] names_chunk(items[j], k) }
pub open spec fn names_chunk(f: FileName, k: ChunkId) -> bool { !f.is_lock && f.parsed == Some(k.0) }
