// ===== prelude/chunk_spec.rs: Chunk / OpenChunk / ClosedChunk (copied) and Inv_Chunk =====
//@struct src/chunk/mod.rs Chunk
//@struct src/chunk/open_chunk.rs OpenChunk allpub
//@struct src/chunk/closed_chunk.rs ClosedChunk

pub open spec fn sorted_u64(s: Seq<u64>) -> bool { forall|i: int, j: int| 0 <= i <= j < s.len() ==> s[i] <= s[j] }

impl<T> Chunk<T> {
    pub open spec fn offs(&self) -> Seq<u64> { self.global_offsets@ }
    /// offsets of a chunk that may still have no complete record
    pub open spec fn inv0(&self) -> bool { self.offs().len() >= 1 && sorted_u64(self.offs()) }
    /// Inv_Chunk: at least one record, offsets non-decreasing
    pub open spec fn inv(&self) -> bool { self.offs().len() >= 2 && sorted_u64(self.offs()) }
    pub open spec fn sp_start(&self) -> u64 { self.offs()[0] }
    pub open spec fn sp_end(&self) -> u64 { self.offs()[self.offs().len() - 1] }
    pub open spec fn sp_last_seg(&self) -> Segment { Segment { offset: self.offs()[self.offs().len() - 2], size: (self.offs()[self.offs().len() - 1] - self.offs()[self.offs().len() - 2]) as u64 } }
}
