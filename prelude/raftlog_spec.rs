// ===== prelude/raftlog_spec.rs: RaftLog (copied) and its invariants =====
/*+LOCKSTUB:
/// stand-in for src/file_lock.rs FileLock (held for the lifetime of the owner; the real one is under contract in unit U10)
#[verifier::external_body]
pub struct FileLock { l: () }
*/
/// stand-in for src/raft_log/access_state.rs AccessStat (hit/miss counters; rule E21 drops the two fetch_add statements)
#[verifier::external_body]
pub struct AccessStat { a: () }
//@struct src/raft_log/raft_log.rs RaftLog allpub attr=#[verifier::reject_recursive_types(T)]

impl<T: Types> RaftLog<T> {
    /// what every public operation preserves whatever its arguments (basis of C16, C15)
    pub open spec fn inv_safe(&self) -> bool { self.wal.wal_safe() && self.state_machine.inv_core() }
    /// magnitudes assumed small: journal bytes, requests sent, cached bytes (< 2^62)
    pub open spec fn mag_ok(&self) -> bool { self.wal.mag_ok() && small(self.state_machine.payload_cache.size as int) }
    pub open spec fn sp_state(&self) -> RaftLogState<T> { self.state_machine.log_state }
}
/// user-type law (magnitude): a payload reports fewer than 2^61 bytes
pub open spec fn payload_small<T: Types>(p: T::LogPayload) -> bool { T::spec_payload_size(&p) < 0x2000_0000_0000_0000 }
/// argument-side conditions of a record (magnitudes, D6 index limit, State legality)
pub open spec fn rec_arg_ok<T: Types>(rl: RaftLog<T>, rec: WALRecord<T>) -> bool {
    match rec {
        WALRecord::Append(id, p) => idx::<T>(id) < u64::MAX && payload_small::<T>(p),
        WALRecord::TruncateAfter(Some(p)) => idx::<T>(p) < u64::MAX,
        WALRecord::PurgeUpto(u) => idx::<T>(u) < u64::MAX,
        WALRecord::State(s) => oidx_ok::<T>(s.purged) && s.last == rl.state_machine.log_state.last,
        _ => true,
    }
}
