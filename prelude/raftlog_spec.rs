// ===== prelude/raftlog_spec.rs: RaftLog (copied) and its invariants =====
/*+LOCKSTUB:
/// stand-in for src/file_lock.rs FileLock (held for the lifetime of the owner; the real one is under contract in unit U10)
#[verifier::external_body]
pub struct FileLock { l: () }
*/
/// stand-in for src/raft_log/access_state.rs AccessStat (hit/miss counters; rule E21 drops the two fetch_add statements)
#[verifier::external_body]
pub struct AccessStat { a: () }
//@struct src/raft_log/raft_log.rs RaftLog allpub attr=#[verifier::reject_recursive_types(T)]

impl<T: Types> RaftLog<T> {
    /// what every public operation preserves whatever its arguments (basis of C16, C15)
    pub open spec fn inv_safe(&self) -> bool { self.wal.wal_safe() && self.state_machine.inv_core() }
    /// magnitudes assumed small: journal bytes, requests sent, cached bytes (< 2^62)
    pub open spec fn mag_ok(&self) -> bool { self.wal.mag_ok() && small(self.state_machine.payload_cache.size as int) }
    pub open spec fn sp_state(&self) -> RaftLogState<T> { self.state_machine.log_state }
    /// J: the evictable boundary never lies above `last` (every entry appended from now on is pinned until the worker moves the boundary)
    pub open spec fn boundary_le_last(&self) -> bool { ole(self.state_machine.payload_cache.last_evictable, self.state_machine.log_state.last) }
}
/// user-type law (magnitude): a payload reports fewer than 2^61 bytes
pub open spec fn payload_small<T: Types>(p: T::LogPayload) -> bool { T::spec_payload_size(&p) < 0x2000_0000_0000_0000 }
/// argument-side conditions of a record (magnitudes, D6 index limit, State legality)
pub open spec fn rec_arg_ok<T: Types>(rl: RaftLog<T>, rec: WALRecord<T>) -> bool {
    match rec {
        WALRecord::Append(id, p) => idx::<T>(id) < u64::MAX && payload_small::<T>(p),
        WALRecord::TruncateAfter(Some(p)) => idx::<T>(p) < u64::MAX,
        WALRecord::PurgeUpto(u) => idx::<T>(u) < u64::MAX,
        WALRecord::State(s) => oidx_ok::<T>(s.purged) && s.last == rl.state_machine.log_state.last,
        _ => true,
    }
}

/// `BTreeMap::range(from..to)` on the index (rule E8/E7: the iterator chain of RaftLog::read is lifted; ASSUMED std contract:
/// panics if from > to; yields the entries with from <= key < to in ascending key order)
#[verifier::external_body]
#[verifier::reject_recursive_types(T)]
pub struct IndexRange<'a, T: Types> { r: &'a BTreeMap<u64, LogData<T>> }
impl<'a, T: Types> IndexRange<'a, T> {
    pub uninterp spec fn keys(&self) -> Seq<u64>;
}
#[verifier::external_body]
pub fn btree_range<'a, T: Types>(m: &'a BTreeMap<u64, LogData<T>>, from: u64, to: u64) -> (r: IndexRange<'a, T>)
    requires from <= to
    ensures
        forall|i: int, j: int| 0 <= i < j < r.keys().len() ==> r.keys()[i] < r.keys()[j],
        forall|k: u64| r.keys().contains(k) <==> (m@.contains_key(k) && from <= k < to),
{ unimplemented!() }
/*+U64MAX:
pub fn u64_max(a: u64, b: u64) -> (r: u64) ensures r == (if a >= b { a } else { b }) { if a >= b { a } else { b } }
*/
pub fn u64_min(a: u64, b: u64) -> (r: u64) ensures r == (if a <= b { a } else { b }) { if a <= b { a } else { b } }

/// stand-in for `I: IntoIterator<Item = (LogId, Payload)>` of the batch `append` (rule E7: `for (id, p) in entries` is desugared to
/// repeated `next_entry()`); the next entry is arbitrary, so the loop contract holds for every batch.
/// ASSUMED of the entries: index < u64::MAX (finding D6) and the user law payload_size < 2^61.
pub trait EntrySource<T: Types>: Sized {
    fn next_entry(&mut self) -> (r: Option<(T::LogId, T::LogPayload)>)
        ensures r is Some ==> idx::<T>(r->Some_0.0) < u64::MAX && payload_small::<T>(r->Some_0.1);
}
/// `seg` is the segment of the record most recently journaled by this WAL: the last record of the open chunk, or — when that
/// write filled the chunk — the last record of the chunk that was just closed (the open chunk then holds only its head)
pub open spec fn seg_is_last_record<T: Types>(wal: RaftLogWAL<T>, seg: Segment) -> bool {
    if wal.open.chunk.offs().len() >= 3 { seg == wal.open.chunk.sp_last_seg() }
    else { exists|k: ChunkId| #[trigger] wal.closed@.contains_key(k) && wal.closed@[k].chunk.offs().len() >= 2 && wal.closed@[k].chunk.sp_end() == wal.open.chunk.sp_start() && seg == wal.closed@[k].chunk.sp_last_seg() }
}
