// ===== prelude/sm_spec.rs: RaftLogStateMachine (copied, rule E6 on the cache field) and its invariants (DESIGN 3.3) =====
//@struct src/raft_log/state_machine/mod.rs RaftLogStateMachine sub=#Arc<RwLock<PayloadCache<T>>>#PayloadCache<T>#

/// magnitude side conditions of one record w.r.t. the current machine (DESIGN 8.6; needed for panic-freedom only)
pub open spec fn rec_fits<T: Types>(sm: RaftLogStateMachine<T>, rec: WALRecord<T>) -> bool {
    match rec {
        WALRecord::Append(id, p) => idx::<T>(id) < u64::MAX && sm.payload_cache.size + T::spec_payload_size(&p) <= usize::MAX,
        WALRecord::TruncateAfter(Some(p)) => idx::<T>(p) < u64::MAX,
        WALRecord::PurgeUpto(u) => idx::<T>(u) < u64::MAX,
        _ => true,
    }
}
/// a State record is only specified when it keeps `last` (save_user_data, chunk heads = state at rotation) or nothing is live yet
pub open spec fn rec_state_legal<T: Types>(sm: RaftLogStateMachine<T>, rec: WALRecord<T>) -> bool {
    match rec {
        WALRecord::State(s) => oidx_ok::<T>(s.purged) && (s.last == sm.log_state.last || (sm.log@.dom().is_empty() && sm.payload_cache.cache@.dom().is_empty() && oidx_ok::<T>(s.last))),
        _ => true,
    }
}

impl<T: Types> RaftLogStateMachine<T> {
    /// I7: every cached key is at or below `last` (so an accepted append inserts a fresh cache key)
    pub open spec fn cache_below_last(&self) -> bool {
        forall|k: T::LogId| #[trigger] self.payload_cache.cache@.contains_key(k) ==> le_opt(k, self.log_state.last)
    }
    /// what every record — accepted or not — preserves (enough for panic-freedom): the byte counter never undercounts
    pub open spec fn inv_weak(&self) -> bool { self.payload_cache.slack() >= 0 && oidx_ok::<T>(self.log_state.last) }
    /// the part of Inv_SM every accepted write preserves unconditionally
    pub open spec fn inv_core(&self) -> bool {
        &&& self.payload_cache.inv()
        &&& self.cache_below_last()
        &&& oidx_ok::<T>(self.log_state.last)
        &&& oidx_ok::<T>(self.log_state.purged)
    }
    /// I1-I5: index structure of the live entries (holds on Raft-legal histories, see `legal`)
    pub open spec fn inv_idx(&self) -> bool {
        let last = self.log_state.last;
        let purged = self.log_state.purged;
        // I1: an entry sits under the index its log id carries
        &&& forall|i: u64| #[trigger] self.log@.contains_key(i) ==> idx::<T>(self.log@[i].log_id) == i
        // I2: log ids increase with the index
        &&& forall|i: u64, j: u64| #[trigger] self.log@.contains_key(i) && #[trigger] self.log@.contains_key(j) && i < j ==> lt(self.log@[i].log_id, self.log@[j].log_id)
        // I3: live entries are at or below `last`, by id and by index
        &&& forall|i: u64| #[trigger] self.log@.contains_key(i) ==> le_opt(self.log@[i].log_id, last) && i <= idx::<T>(last.unwrap())
        // I4: live entries lie above the purged id, by id and by index
        &&& forall|i: u64| #[trigger] self.log@.contains_key(i) ==> olt(purged, Some(self.log@[i].log_id)) && i >= onext::<T>(purged)
        // I5: purged <= last, by id and by index
        &&& ole(purged, last) && onext::<T>(purged) <= onext::<T>(last)
    }
    /// history legality of a record (DESIGN 3.2): a cut record cuts the live entries consistently by id and by index and lies
    /// consistently with `purged` / `last` in both orders.  RaftLog::truncate ESTABLISHES it for the record it builds (lemma_truncate_legal);
    /// for purge(u) it is the caller's obligation ("Raft-legal": u is a live id, or lies beyond the last entry in both orders).
    pub open spec fn legal(&self, rec: WALRecord<T>) -> bool {
        let last = self.log_state.last;
        let purged = self.log_state.purged;
        match rec {
            WALRecord::TruncateAfter(Some(p)) => (forall|i: u64| #[trigger] self.log@.contains_key(i) ==> (i <= idx::<T>(p) <==> le(self.log@[i].log_id, p)))
                && ole(purged, Some(p)) && onext::<T>(purged) <= idx::<T>(p) + 1,
            WALRecord::TruncateAfter(None) => purged is None,
            WALRecord::PurgeUpto(u) => (forall|i: u64| #[trigger] self.log@.contains_key(i) ==> (i <= idx::<T>(u) <==> le(self.log@[i].log_id, u)))
                && (last is Some ==> (le(u, last.unwrap()) <==> idx::<T>(u) <= idx::<T>(last.unwrap())))
                && (purged is Some ==> (le(purged.unwrap(), u) <==> idx::<T>(purged.unwrap()) <= idx::<T>(u))),
            _ => true,
        }
    }
}

/// the index map after applying `rec` journaled at (chunk_id, segment): the reference step on the key set, values untouched
pub open spec fn sm_index_step<T: Types>(o: RaftLogStateMachine<T>, n: RaftLogStateMachine<T>, rec: WALRecord<T>, chunk_id: ChunkId, segment: Segment) -> bool {
    match rec {
        WALRecord::Append(id, p) => n.log@ == o.log@.insert(idx::<T>(id), LogData { log_id: id, chunk_id, record_segment: segment }),
        WALRecord::TruncateAfter(prev) => (forall|i: u64| #[trigger] n.log@.contains_key(i) <==> o.log@.contains_key(i) && i < onext::<T>(prev)) && (forall|i: u64| n.log@.contains_key(i) ==> #[trigger] n.log@[i] == o.log@[i]),
        WALRecord::PurgeUpto(u) => (forall|i: u64| #[trigger] n.log@.contains_key(i) <==> o.log@.contains_key(i) && i > idx::<T>(u)) && (forall|i: u64| n.log@.contains_key(i) ==> #[trigger] n.log@[i] == o.log@[i]),
        _ => n.log@ == o.log@,
    }
}
/// the payload cache after applying `rec`: pinned entries survive, nothing foreign appears, limits respected up to pinning
pub open spec fn sm_cache_step<T: Types>(oc: PayloadCache<T>, nc: PayloadCache<T>, rec: WALRecord<T>) -> bool {
    match rec {
        WALRecord::Append(id, p) => nc.keeps_pinned_of(&oc)
            && (oc.pinned(id) ==> nc.cache@.contains_key(id))
            && (forall|k: T::LogId| #[trigger] nc.cache@.contains_key(k) ==> (k == id && nc.cache@[k] == p) || (oc.cache@.contains_key(k) && nc.cache@[k] == oc.cache@[k]))
            && (!nc.over_limit() || nc.all_pinned())
            && (oc.cache@.len() + 1 <= oc.max_items && oc.size + T::spec_payload_size(&p) <= oc.capacity ==> nc.cache@ == oc.cache@.insert(id, p)),
        WALRecord::TruncateAfter(Some(prev)) => nc.sub_of(&oc)
            && (forall|k: T::LogId| #[trigger] oc.cache@.contains_key(k) ==> (nc.cache@.contains_key(k) <==> le(k, prev))),
        WALRecord::TruncateAfter(None) => nc.cache@ == Map::<T::LogId, T::LogPayload>::empty(),
        WALRecord::PurgeUpto(u) => nc.sub_of(&oc) && nc.keeps_pinned_of(&oc)
            && (forall|k: T::LogId| #[trigger] oc.cache@.contains_key(k) ==> nc.cache@.contains_key(k) || (le(k, u) && !oc.pinned(k))),
        _ => nc.cache@ == oc.cache@ && nc.size == oc.size,
    }
}
