// ===== prelude/sm_spec.rs: RaftLogStateMachine (copied, rule E6 on the cache field) and its invariants (DESIGN 3.3) =====
//@struct src/raft_log/state_machine/mod.rs RaftLogStateMachine sub=#Arc<RwLock<PayloadCache<T>>>#PayloadCache<T>#

/// magnitude / legality side conditions of one record w.r.t. the current machine (DESIGN 3.2)
pub open spec fn rec_fits<T: Types>(sm: RaftLogStateMachine<T>, rec: WALRecord<T>) -> bool {
    match rec {
        WALRecord::Append(id, p) => idx::<T>(id) < u64::MAX && sm.payload_cache.size + T::spec_payload_size(&p) <= usize::MAX,
        WALRecord::TruncateAfter(Some(p)) => idx::<T>(p) < u64::MAX,
        WALRecord::PurgeUpto(u) => idx::<T>(u) < u64::MAX,
        // a State record is only specified when it keeps `last` (save_user_data, chunk heads) or nothing is live yet
        WALRecord::State(s) => s.last == sm.log_state.last || (sm.log@.dom().is_empty() && sm.payload_cache.cache@.dom().is_empty() && oidx_ok::<T>(s.last)),
        _ => true,
    }
}

impl<T: Types> RaftLogStateMachine<T> {
    /// I7: every cached key is at or below `last` (so an accepted append inserts a fresh cache key)
    pub open spec fn cache_below_last(&self) -> bool {
        forall|k: T::LogId| #[trigger] self.payload_cache.cache@.contains_key(k) ==> le_opt(k, self.log_state.last)
    }
    /// the part of Inv_SM every accepted write preserves unconditionally
    pub open spec fn inv_core(&self) -> bool {
        &&& self.payload_cache.inv()
        &&& self.cache_below_last()
        &&& oidx_ok::<T>(self.log_state.last)
    }
    /// I1-I3: index structure of the live entries (needs Raft-legal histories)
    pub open spec fn inv_idx(&self) -> bool {
        let last = self.log_state.last;
        &&& forall|i: u64| #[trigger] self.log@.contains_key(i) ==> idx::<T>(self.log@[i].log_id) == i
        &&& forall|i: u64, j: u64| #[trigger] self.log@.contains_key(i) && #[trigger] self.log@.contains_key(j) && i < j ==> lt(self.log@[i].log_id, self.log@[j].log_id)
        &&& forall|i: u64| #[trigger] self.log@.contains_key(i) ==> le_opt(self.log@[i].log_id, last) && i <= idx::<T>(last.unwrap())
    }
    /// history legality of a cut record: it cuts the live entries consistently by id and by index
    pub open spec fn legal(&self, rec: WALRecord<T>) -> bool {
        match rec {
            WALRecord::TruncateAfter(Some(p)) => forall|i: u64| #[trigger] self.log@.contains_key(i) ==> (i <= idx::<T>(p) <==> le(self.log@[i].log_id, p)),
            WALRecord::PurgeUpto(u) => forall|i: u64| #[trigger] self.log@.contains_key(i) ==> (i <= idx::<T>(u) <==> le(self.log@[i].log_id, u)),
            _ => true,
        }
    }
}
