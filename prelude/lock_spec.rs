// ===== prelude/lock_spec.rs: the directory-lock facts =====
/// event: the LOCK file of a directory was opened (created/truncated) as this handle
pub uninterp spec fn ev_lock_opened(dir: String, fid: int) -> bool;
/// event: flock(LOCK_EX | LOCK_NB) succeeded on this handle.  ASSUMED (kernel): exclusive across threads and processes until unlock/close
pub uninterp spec fn ev_flocked(fid: int) -> bool;
/// "the exclusive lock of this directory was acquired earlier in this execution" — facts only become available AFTER the call that
/// establishes them, so a `requires lock_held(dir)` on an operation proves the lock is taken before it in program order
pub open spec fn lock_held(dir: String) -> bool { exists|fid: int| ev_lock_opened(dir, fid) && ev_flocked(fid) }
