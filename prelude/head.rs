#![feature(allocator_api)]
#![allow(unused_imports, unused_variables, dead_code, unused_mut, unused_parens, unused_braces)]
use vstd::prelude::*;
use vstd::std_specs::cmp::*;
use vstd::laws_cmp::*;
use vstd::laws_eq::*;
use vstd::std_specs::btree::*;
use std::collections::BTreeMap;
use core::cmp::Ordering;
use core::alloc::Allocator;
use core::borrow::Borrow;
