// ===== prelude/cache_spec.rs: PayloadCache definition (copied) and its specification vocabulary =====
pub open spec fn psize<T: Types>() -> spec_fn(T::LogPayload) -> nat { |p: T::LogPayload| T::spec_payload_size(&p) as nat }

//@struct src/raft_log/state_machine/payload_cache.rs PayloadCache allpub

impl<T: Types> PayloadCache<T> {
    /// by how much the byte counter exceeds the sum of the payload sizes actually resident (0 = exact accounting)
    pub open spec fn slack(&self) -> int { self.size as int - map_sum(self.cache@, psize::<T>()) as int }
    /// Inv_Cache: the byte counter equals the sum of the payload sizes actually resident
    pub open spec fn inv(&self) -> bool { self.slack() == 0 }
    pub open spec fn frame(&self, o: &Self) -> bool {
        self.max_items == o.max_items && self.capacity == o.capacity && self.last_evictable == o.last_evictable
    }
    /// k is pinned: strictly above the evictable boundary
    pub open spec fn pinned(&self, k: T::LogId) -> bool { !le_opt(k, self.last_evictable) }
    pub open spec fn sub_of(&self, o: &Self) -> bool {
        forall|k: T::LogId| #[trigger] self.cache@.contains_key(k) ==> o.cache@.contains_key(k) && self.cache@[k] == o.cache@[k]
    }
    pub open spec fn keeps_pinned_of(&self, o: &Self) -> bool {
        forall|k: T::LogId| #[trigger] o.cache@.contains_key(k) && o.pinned(k) ==> self.cache@.contains_key(k)
    }
    pub open spec fn over_limit(&self) -> bool { self.cache@.len() > self.max_items || self.size > self.capacity }
    pub open spec fn all_pinned(&self) -> bool { forall|k: T::LogId| #[trigger] self.cache@.contains_key(k) ==> self.pinned(k) }
}
