// ===== prelude/open_spec.rs: directory lock (copied), assumed external pieces of RaftLog::open =====
//@struct src/file_lock.rs FileLock allpub
//@include prelude/lock_spec.rs
/// `OpenOptions::new().read(true).write(true).create(true).truncate(true).open(&path)` on lock_path(config)
#[verifier::external_body]
pub fn lock_file_open(config: &Config) -> (r: Result<File, io::Error>)
    ensures r is Ok ==> ev_lock_opened(config.dir, r->Ok_0.fid())
{ unimplemented!() }
impl File {
    /// fs2::FileExt::try_lock_exclusive
    #[verifier::external_body]
    pub fn try_lock_exclusive(&self) -> (r: Result<(), io::Error>)
        ensures r is Ok ==> ev_flocked(self.fid())
    { unimplemented!() }
    /// fs2::FileExt::unlock on the handle the owner itself locked
    #[verifier::external_body]
    pub fn unlock_own(&self) -> (r: Result<(), io::Error>)
        opens_invariants none
        no_unwind
    { unimplemented!() }
}
/// `.map_err(|e| io::Error::new(kind, msg))` on the lock result (message dropped, E3)
pub fn lock_err(r: Result<(), io::Error>) -> (o: Result<(), io::Error>)
    ensures r is Ok <==> o is Ok
{ match r { Ok(()) => Ok(()), Err(_e) => Err(io::Error::new(io::ErrorKind::WouldBlock, fmt_opaque())) } }
pub open spec fn strictly_sorted_ids(v: Seq<ChunkId>) -> bool { forall|i: int, j: int| 0 <= i < j < v.len() ==> v[i].0 < v[j].0 }
/// the user types' log ids never carry index u64::MAX (the D6 assumption, stated as a law of the user's types for the replay path)
pub open spec fn idx_bounded<T: Types>() -> bool { forall|l: T::LogId| #[trigger] T::spec_log_index(&l) < u64::MAX }
