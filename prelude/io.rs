// ===== prelude/io.rs: stand-in for std::io::{Error, ErrorKind} (rule E3: message text dropped, kind kept) =====
#[derive(PartialEq, Eq, Clone, Copy, Structural)]
pub enum IoErrorKind { NotFound, AlreadyExists, WouldBlock, InvalidInput, InvalidData, UnexpectedEof, WriteZero, Interrupted, Other, Uncategorized }
pub mod io {
    use vstd::prelude::*;
    pub use super::IoErrorKind as ErrorKind;
    pub struct Error { pub kind: ErrorKind }
    impl Error {
        pub fn new<M>(kind: ErrorKind, msg: M) -> (r: Error) ensures r.kind == kind { Error { kind } }
        pub fn other<M>(msg: M) -> (r: Error) ensures r.kind == ErrorKind::Other { Error { kind: ErrorKind::Other } }
        pub fn kind(&self) -> (r: ErrorKind) ensures r == self.kind { self.kind }
        pub fn to_string(&self) -> (r: super::FmtOpaque) { super::FmtOpaque {} }
    }
}
/// result of `format!(..)` / `to_string()` on messages (rule E3)
pub struct FmtOpaque {}
pub fn fmt_opaque() -> FmtOpaque { FmtOpaque {} }
/// `panic!`/`unreachable!` (rule E19): reaching it is a failed safety obligation
#[verifier::external_body]
pub fn vpanic() -> !
    requires false
    ensures false
{ panic!() }
