// ===== prelude/recovery.rs: stand-ins for the file reads of recovery (ASSUMED std contracts), OffsetReader / RecordIterator (copied) =====
/// file-system events of recovery (rule E9: `fx` is a ghost out-parameter of Chunk::open / RaftLog::open)
pub enum FsEv {
    SetLen { fid: int, len: u64, ok: bool },
    SyncAll { fid: int, ok: bool },
}
pub struct Metadata { pub l: u64 }
impl Metadata { pub fn len(&self) -> (r: u64) ensures r == self.l { self.l } }
impl File {
    /// the bytes of the file as long as nobody truncates or extends it (recovery reads a chunk file only before it may truncate it)
    pub uninterp spec fn content(&self) -> Seq<u8>;
    #[verifier::external_body]
    pub fn metadata(&self) -> (r: Result<Metadata, io::Error>) ensures r is Ok ==> r->Ok_0.l == self.content().len() { unimplemented!() }
    /// FileExt::read_at (pread): short reads allowed; 0 only at/after EOF or for an empty buffer
    #[verifier::external_body]
    pub fn read_at(&self, buf: &mut Vec<u8>, offset: u64) -> (r: Result<usize, io::Error>)
        ensures final(buf)@.len() == old(buf)@.len(),
            r is Ok ==> ({
                let n = r->Ok_0 as int;
                &&& (n <= old(buf)@.len() && offset + n <= self.content().len()) || n == 0
                &&& (n == 0 <==> (offset >= self.content().len() || old(buf)@.len() == 0))
                &&& forall|i: int| 0 <= i < n ==> #[trigger] final(buf)@[i] == self.content()[offset + i]
            })
    { unimplemented!() }
    /// FileExt::read_exact_at: fills the buffer or fails with UnexpectedEof
    #[verifier::external_body]
    pub fn read_exact_at(&self, buf: &mut Vec<u8>, offset: u64) -> (r: Result<(), io::Error>)
        ensures final(buf)@.len() == old(buf)@.len(),
            r is Ok ==> offset + old(buf)@.len() <= self.content().len() && final(buf)@ == self.content().subrange(offset as int, offset + old(buf)@.len()),
            r is Err && offset + old(buf)@.len() > self.content().len() ==> r->Err_0.kind == io::ErrorKind::UnexpectedEof,
    { unimplemented!() }
}
/// `f.set_len(len)` / `f.sync_all()`: free functions on purpose — the only way the extracted code reaches them is through the E9 splice that also
/// records the event, so a call the splice does not recognise is a hard error (undecided), and a DELETED call is a missing event (violation)
#[verifier::external_body]
pub fn file_set_len(f: &File, len: u64) -> (r: Result<(), io::Error>) { unimplemented!() }
#[verifier::external_body]
pub fn file_sync_all(f: &File) -> (r: Result<(), io::Error>) { unimplemented!() }
/// `OpenOptions::new().read(true).write(true).open(path)` + codeq `.context(..)`
pub uninterp spec fn ev_opened(path: String, fid: int) -> bool;
#[verifier::external_body]
pub fn file_open_rw(path: String) -> (r: Result<File, io::Error>)
    ensures r is Ok ==> ev_opened(path, r->Ok_0.fid())
{ unimplemented!() }

/// std::io::BufReader<Arc<File>> reading a freshly opened file from position 0: a reader over the file content
#[verifier::external_body]
pub struct BufReader { b: () }
impl BufReader {
    #[verifier::external_body]
    pub fn with_capacity(cap: usize, f: Arc<File>) -> (r: BufReader)
        ensures r.origin() == f.content(), r.rem() == f.content(), r.pos() == 0
    { unimplemented!() }
}
impl rw::Read for BufReader {
    uninterp spec fn origin(&self) -> Seq<u8>;
    uninterp spec fn rem(&self) -> Seq<u8>;
    uninterp spec fn pos(&self) -> nat;
    #[verifier::prophetic]
    uninterp spec fn after(&self) -> Seq<u8>;
    #[verifier::prophetic]
    uninterp spec fn pos_after(&self) -> nat;
    #[verifier::prophetic]
    uninterp spec fn kept(&self) -> bool;
    proof fn law_resolved(&self) { admit(); }
    proof fn law_suffix(&self) { admit(); }
    proof fn law_pos(&self) { admit(); }
    #[verifier::external_body]
    fn read(&mut self, buf: &mut [u8]) -> (r: Result<usize, io::Error>) { unimplemented!() }
}
/// codeq::error_context_ext::ErrorContextExt on Result<_, io::Error>: wraps the message, keeps Ok values and the error kind (ASSUMED)
pub trait ErrorContextExt<V>: Sized {
    fn context<F>(self, f: F) -> (r: Result<V, io::Error>);
}
impl<V> ErrorContextExt<V> for Result<V, io::Error> {
    #[verifier::external_body]
    fn context<F>(self, f: F) -> (r: Result<V, io::Error>)
        ensures self is Ok ==> r == self, self is Err ==> r is Err && r->Err_0.kind == self->Err_0.kind
    { unimplemented!() }
}

//@struct src/offset_reader.rs OffsetReader allpub
//@struct src/chunk/record_iterator.rs RecordIterator allpub
pub open spec fn zeros_from(s: Seq<u8>, from: int) -> bool { forall|i: int| from <= i < s.len() ==> #[trigger] s[i] == 0 }

/// ASSUMED magnitude: a chunk file is shorter than 2^62 bytes
pub axiom fn axiom_file_small(f: &File)
    ensures f.content().len() < 0x4000_0000_0000_0000;
pub assume_specification<'a, T: Copy>[ Option::<&'a T>::copied ](o: Option<&'a T>) -> (r: Option<T>)
    ensures r == (match o { Some(x) => Some(*x), None => None });
