// ===== prelude/fs.rs: stand-ins for std::fs::File / Arc<File> / mpsc (ASSUMED contracts; effects are uninterpreted events) =====
use std::sync::Arc;
use core::marker::PhantomData;
pub assume_specification<T: Default>[ std::mem::take ](dest: &mut T) -> (r: T)
    ensures r == *old(dest), call_ensures(T::default, (), *final(dest));
pub assume_specification<T>[ std::mem::replace ](dest: &mut T, src: T) -> (r: T)
    ensures r == *old(dest), *final(dest) == src;

/// stand-in for std::fs::File: an opaque handle with an identity
#[verifier::external_body]
pub struct File { f: std::fs::File }
impl File {
    pub uninterp spec fn fid(&self) -> int;
}
/// event "these bytes were handed to write_all on that file and it returned Ok" (no ordering information)
pub uninterp spec fn ev_wrote(fid: int, data: Seq<u8>) -> bool;
/// event "OpenOptions::new().write(true).read(true).create_new(true).open(path) returned this file"
pub uninterp spec fn ev_created(path: String, fid: int) -> bool;
/// `(&File).write_all(buf)` via `impl Write for &File`
#[verifier::external_body]
pub fn file_write_all(f: &File, data: &Vec<u8>) -> (r: Result<(), io::Error>)
    ensures r is Ok ==> ev_wrote(f.fid(), data@)
{ unimplemented!() }
/// `(&File).write(buf)`: may accept only a prefix of the buffer (std: "returns how many bytes were written")
#[verifier::external_body]
pub fn file_write(f: &File, data: &Vec<u8>) -> (r: Result<usize, io::Error>)
    ensures r is Ok ==> r->Ok_0 <= data@.len() && ev_wrote(f.fid(), data@.take(r->Ok_0 as int))
{ unimplemented!() }
/// `OpenOptions::new().write(true).read(true).create_new(true).open(path)`
#[verifier::external_body]
pub fn file_create_new_rw(path: String) -> (r: Result<File, io::Error>)
    ensures r is Ok ==> ev_created(path, r->Ok_0.fid())
{ unimplemented!() }

/// stand-in for std::sync::mpsc::SyncSender<M>: the history of sent messages is ghost state of the handle.
/// ASSUMED: FIFO delivery; `send` either enqueues the message (Ok) or drops it (Err: receiver gone).
#[verifier::reject_recursive_types(M)]
pub struct SyncSender<M> { pub ghost sent: Seq<M> }
pub struct SendError {}
impl<M> SyncSender<M> {
    #[verifier::external_body]
    pub fn send(&mut self, m: M) -> (r: Result<(), SendError>)
        ensures r is Ok ==> final(self).sent == old(self).sent.push(m),
                r is Err ==> final(self).sent == old(self).sent,
    { unimplemented!() }
}
