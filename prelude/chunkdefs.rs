// ===== prelude/chunkdefs.rs: ChunkId and LogData (copied) =====
//@struct src/chunk/chunk_id.rs ChunkId derive=Clone,Copy,PartialEq,Eq,PartialOrd,Ord
// derive(PartialOrd, Ord, PartialEq, Eq) on the newtype (E16, ASSUMED): the order of the wrapped offset
pub broadcast axiom fn axiom_chunkid_ord()
    ensures #[trigger] obeys_cmp::<ChunkId>();
pub broadcast axiom fn axiom_chunkid_cmp(a: ChunkId, b: ChunkId)
    ensures #[trigger] a.cmp_spec(&b) == (if a.0 < b.0 { Ordering::Less } else if a.0 == b.0 { Ordering::Equal } else { Ordering::Greater });
impl ChunkId {
//@fn src/chunk/chunk_id.rs ChunkId::offset
props: C11 C09
ensures:
  [C11 def] r == self.0
//@end
}
impl core::ops::Deref for ChunkId {
    type Target = u64;
//@fn src/chunk/chunk_id.rs ChunkId::deref trait=Deref
props: C11
ensures:
  [C11 def] *r == self.0
//@end
}
//@struct src/raft_log/log_data.rs LogData
impl<T: Types> LogData<T> {
//@fn src/raft_log/log_data.rs LogData::new
props: C01 C11
ensures:
  [C01 fields] r.log_id == log_id && r.chunk_id == chunk_id && r.record_segment == record_segment
//@end
}
