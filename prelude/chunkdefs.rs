// ===== prelude/chunkdefs.rs: ChunkId and LogData (copied) =====
//@struct src/chunk/chunk_id.rs ChunkId derive=Clone,Copy,PartialEq,Eq,PartialOrd,Ord
impl ChunkId {
//@fn src/chunk/chunk_id.rs ChunkId::offset
props: C11 C09
ensures:
  [C11 def] r == self.0
//@end
}
//@struct src/raft_log/log_data.rs LogData
impl<T: Types> LogData<T> {
//@fn src/raft_log/log_data.rs LogData::new
props: C01 C11
ensures:
  [C01 fields] r.log_id == log_id && r.chunk_id == chunk_id && r.record_segment == record_segment
//@end
}
