// ===== prelude/errors.rs: error types copied from src/errors.rs; derive/thiserror-generated impls declared (rule E16) =====
//@struct src/errors.rs VoteReversal
//@struct src/errors.rs LogIdReversal
//@struct src/errors.rs LogIdNonConsecutive
//@struct src/errors.rs LogIndexNotFound
//@enum src/errors.rs RaftLogStateError

impl<T: Types> VoteReversal<T> {
//@fn src/errors.rs VoteReversal::new
props: C06
ensures:
  r.current == current && r.attempted == attempted
//@end
}
impl<T: Types> LogIdReversal<T> {
//@fn src/errors.rs LogIdReversal::new
props: C06
ensures:
  r.current == current && r.attempted == attempted
//@end
}
impl<T: Types> LogIdNonConsecutive<T> {
//@fn src/errors.rs LogIdNonConsecutive::new
props: C06
ensures:
  r.last == last && r.attempted == attempted
//@end
}
impl LogIndexNotFound {
//@fn src/errors.rs LogIndexNotFound::new
props: C06
ensures:
  r.index == index
//@end
}
// thiserror `#[from]` and src/errors.rs `impl From<RaftLogStateError<T>> for io::Error` (E16; message text dropped, E3)
use vstd::std_specs::convert::FromSpecImpl;
impl<T: Types> FromSpecImpl<VoteReversal<T>> for RaftLogStateError<T> { open spec fn obeys_from_spec() -> bool { true } open spec fn from_spec(e: VoteReversal<T>) -> Self { RaftLogStateError::VoteReversal(e) } }
impl<T: Types> From<VoteReversal<T>> for RaftLogStateError<T> { fn from(e: VoteReversal<T>) -> (r: Self) { RaftLogStateError::VoteReversal(e) } }
impl<T: Types> FromSpecImpl<LogIdReversal<T>> for RaftLogStateError<T> { open spec fn obeys_from_spec() -> bool { true } open spec fn from_spec(e: LogIdReversal<T>) -> Self { RaftLogStateError::LogIdReversal(e) } }
impl<T: Types> From<LogIdReversal<T>> for RaftLogStateError<T> { fn from(e: LogIdReversal<T>) -> (r: Self) { RaftLogStateError::LogIdReversal(e) } }
impl<T: Types> FromSpecImpl<LogIdNonConsecutive<T>> for RaftLogStateError<T> { open spec fn obeys_from_spec() -> bool { true } open spec fn from_spec(e: LogIdNonConsecutive<T>) -> Self { RaftLogStateError::LogIdNonConsecutive(e) } }
impl<T: Types> From<LogIdNonConsecutive<T>> for RaftLogStateError<T> { fn from(e: LogIdNonConsecutive<T>) -> (r: Self) { RaftLogStateError::LogIdNonConsecutive(e) } }
impl<T: Types> FromSpecImpl<LogIndexNotFound> for RaftLogStateError<T> { open spec fn obeys_from_spec() -> bool { true } open spec fn from_spec(e: LogIndexNotFound) -> Self { RaftLogStateError::LogIndexNotFound(e) } }
impl<T: Types> From<LogIndexNotFound> for RaftLogStateError<T> { fn from(e: LogIndexNotFound) -> (r: Self) { RaftLogStateError::LogIndexNotFound(e) } }
impl<T: Types> FromSpecImpl<RaftLogStateError<T>> for io::Error { open spec fn obeys_from_spec() -> bool { true } open spec fn from_spec(e: RaftLogStateError<T>) -> Self { io::Error { kind: io::ErrorKind::InvalidInput } } }
impl<T: Types> From<RaftLogStateError<T>> for io::Error { fn from(value: RaftLogStateError<T>) -> (r: Self) { io::Error::new(io::ErrorKind::InvalidInput, fmt_opaque()) } }
