// ===== prelude/config.rs: Config (copied) and its getters =====
//@struct src/config.rs Config
// the default values are taken from the working tree on every run: no property pins them down
//@const D_CACHE_ITEMS src/config.rs self\.log_cache_max_items\.unwrap_or\(([^)]*)\)
//@const D_CACHE_CAP src/config.rs self\.log_cache_capacity\.unwrap_or\(([^)]*)\)
//@const D_READ_BUF src/config.rs self\.read_buffer_size\.unwrap_or\(([^)]*)\)
//@const D_MAX_RECORDS src/config.rs self\.chunk_max_records\.unwrap_or\(([^)]*)\)
//@const D_MAX_SIZE src/config.rs self\.chunk_max_size\.unwrap_or\(([^)]*)\)
//@const D_TRUNCATE src/config.rs self\.truncate_incomplete_record\.unwrap_or\(([^)]*)\)
pub uninterp spec fn spec_chunk_path(dir: String, id: u64) -> String;
impl Config {
    pub open spec fn sp_log_cache_max_items(&self) -> usize { match self.log_cache_max_items { Some(v) => v, None => (@D_CACHE_ITEMS@) as usize } }
    pub open spec fn sp_log_cache_capacity(&self) -> usize { match self.log_cache_capacity { Some(v) => v, None => (@D_CACHE_CAP@) as usize } }
    pub open spec fn sp_read_buffer_size(&self) -> usize { match self.read_buffer_size { Some(v) => v, None => (@D_READ_BUF@) as usize } }
    pub open spec fn sp_chunk_max_records(&self) -> usize { match self.chunk_max_records { Some(v) => v, None => (@D_MAX_RECORDS@) as usize } }
    pub open spec fn sp_chunk_max_size(&self) -> usize { match self.chunk_max_size { Some(v) => v, None => (@D_MAX_SIZE@) as usize } }
    pub open spec fn sp_truncate(&self) -> bool { match self.truncate_incomplete_record { Some(v) => v, None => @D_TRUNCATE@ } }
//@fn src/config.rs Config::log_cache_max_items
props: C15 C07
ensures:
  r == self.sp_log_cache_max_items()
//@end
//@fn src/config.rs Config::log_cache_capacity
props: C15 C07
ensures:
  r == self.sp_log_cache_capacity()
//@end
//@fn src/config.rs Config::read_buffer_size
props: C10
ensures:
  r == self.sp_read_buffer_size()
//@end
//@fn src/config.rs Config::chunk_max_records
props: C11
ensures:
  r == self.sp_chunk_max_records()
//@end
//@fn src/config.rs Config::chunk_max_size
props: C11
ensures:
  r == self.sp_chunk_max_size()
//@end
//@fn src/config.rs Config::truncate_incomplete_record
props: C10 C09
ensures:
  r == self.sp_truncate()
//@end
    /// ASSUMED: `format!("{}/{}", dir, chunk_file_name(id))`; the file-name codec is not under contract (DESIGN 5 C11)
    #[verifier::external_body]
    pub fn chunk_path(&self, chunk_id: ChunkId) -> (r: String)
        ensures r == spec_chunk_path(self.dir, chunk_id.0)
    { unimplemented!() }
}
