// ===== prelude/codec_link.rs: the journal buffer's encoding IS the codec's encoding (unit U8); contract instance of WALRecord::encode for W = &mut Vec<u8> =====
/// `enc(rec)`: the byte string WALRecord::encode emits — the spec function the codec is proved against in unit U8
pub open spec fn enc_record<T: Types>(rec: WALRecord<T>) -> Seq<u8> { rec.enc() }
/// every record has a 4-byte tag and an 8-byte checksum (|enc| >= 12) and is shorter than 2^61 bytes (from the assumed magnitudes of the user's encodings)
pub broadcast proof fn axiom_enc_record_len<T: Types>(rec: WALRecord<T>)
    ensures #[trigger] enc_record::<T>(rec).len() >= 12, enc_record::<T>(rec).len() < 0x2000_0000_0000_0000
{
    broadcast use axiom_be64_len;
    lemma_fields_small::<T>(rec);
}
impl<T: Types> WALRecord<T> {
    /// ASSUMED instance (W = &mut Vec<u8>) of the generic `encode<W: io::Write>` contract proved in unit U8.
    /// Writing into a Vec never fails and the user codecs only fail on writer errors, so the result is Ok.
    #[verifier::external_body]
    pub fn encode(&self, w: &mut Vec<u8>) -> (r: Result<usize, io::Error>)
        ensures r is Ok, final(w)@ == old(w)@ + enc_record::<T>(*self), r->Ok_0 == enc_record::<T>(*self).len(),
    { unimplemented!() }
}
