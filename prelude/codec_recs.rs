// ===== prelude/codec_recs.rs: enc() of RaftLogState and WALRecord as spec functions (the C12 oracle: tag, fields in declaration order, checksum) =====
/// body of a record: 4-byte big-endian type tag followed by the fields in declaration order
pub open spec fn rec_tag<T: Types>(r: WALRecord<T>) -> u32 {
    match r { WALRecord::SaveVote(_) => 0, WALRecord::Append(_, _) => 1, WALRecord::Commit(_) => 2, WALRecord::TruncateAfter(_) => 3, WALRecord::PurgeUpto(_) => 4, WALRecord::State(_) => 5 }
}
pub open spec fn rec_fields<T: Types>(r: WALRecord<T>) -> Seq<u8> {
    match r {
        WALRecord::SaveVote(v) => v.enc(),
        WALRecord::Append(l, p) => l.enc() + p.enc(),
        WALRecord::Commit(l) => l.enc(),
        WALRecord::TruncateAfter(l) => l.enc(),
        WALRecord::PurgeUpto(l) => l.enc(),
        WALRecord::State(s) => s.enc(),
    }
}
pub open spec fn tag_known(input: Seq<u8>) -> bool { exists|t: u32| t <= 5 && #[trigger] be32(t) == input.take(4) }
pub open spec fn rec_body<T: Types>(r: WALRecord<T>) -> Seq<u8> { be32(rec_tag(r)) + rec_fields(r) }

impl<T: Types> codeq::EncSpec for RaftLogState<T> {
    /// version byte 1, then the five optional fields in declaration order
    open spec fn enc(&self) -> Seq<u8> { seq![1u8] + self.vote.enc() + self.last.enc() + self.committed.enc() + self.purged.enc() + self.user_data.enc() }
    /// UnexpectedEof is only admissible when the version byte is missing or is the KNOWN version 1: an unknown version is InvalidData
    /// (recovery treats UnexpectedEof as an incomplete tail that may be cut off)
    open spec fn err_ok(input: Seq<u8>, k: IoErrorKind) -> bool { k == IoErrorKind::UnexpectedEof ==> input.len() < 1 || input[0] == 1u8 }
    /// version byte 1, then the five optional fields one after the other
    open spec fn dec(s: Seq<u8>) -> Option<(Self, nat)> {
        if s.len() < 1 || s[0] != 1 { None } else {
            let s1 = s.skip(1);
            match Option::<T::Vote>::dec(s1) { None => None, Some((vote, n1)) => {
            let s2 = s1.skip(n1 as int);
            match Option::<T::LogId>::dec(s2) { None => None, Some((last, n2)) => {
            let s3 = s2.skip(n2 as int);
            match Option::<T::LogId>::dec(s3) { None => None, Some((committed, n3)) => {
            let s4 = s3.skip(n3 as int);
            match Option::<T::LogId>::dec(s4) { None => None, Some((purged, n4)) => {
            let s5 = s4.skip(n4 as int);
            match Option::<T::UserData>::dec(s5) { None => None, Some((user_data, n5)) =>
                Some((RaftLogState { vote, last, committed, purged, user_data }, 1 + n1 + n2 + n3 + n4 + n5)) } } } } } } } } }
        }
    }
    proof fn law_dec_enc(v: Self, rest: Seq<u8>) {
        let e0 = seq![1u8]; let e1 = v.vote.enc(); let e2 = v.last.enc(); let e3 = v.committed.enc(); let e4 = v.purged.enc(); let e5 = v.user_data.enc();
        let t5 = rest; let t4 = e5 + t5; let t3 = e4 + t4; let t2 = e3 + t3; let t1 = e2 + t2; let t0 = e1 + t1;
        let s = v.enc() + rest;
        // one re-association, then every step is "parse one field off the front" (lemma_dec_step), no further sequence reasoning
        lemma_concat_assoc(e0 + e1 + e2 + e3 + e4, e5, t5);
        lemma_concat_assoc(e0 + e1 + e2 + e3, e4, t4);
        lemma_concat_assoc(e0 + e1 + e2, e3, t3);
        lemma_concat_assoc(e0 + e1, e2, t2);
        lemma_concat_assoc(e0, e1, t1);
        assert(s == e0 + t0);
        lemma_concat_take_skip(e0, t0);
        assert((e0 + t0)[0] == 1u8);
        let s1 = s.skip(1);
        assert(s1 == t0);
        lemma_dec_step::<Option<T::Vote>>(s1, v.vote, t1);
        let s2 = s1.skip(e1.len() as int);
        lemma_dec_step::<Option<T::LogId>>(s2, v.last, t2);
        let s3 = s2.skip(e2.len() as int);
        lemma_dec_step::<Option<T::LogId>>(s3, v.committed, t3);
        let s4 = s3.skip(e3.len() as int);
        lemma_dec_step::<Option<T::LogId>>(s4, v.purged, t4);
        let s5 = s4.skip(e4.len() as int);
        lemma_dec_step::<Option<T::UserData>>(s5, v.user_data, t5);
        assert(v.enc().len() == 1 + e1.len() + e2.len() + e3.len() + e4.len() + e5.len());
        assert(RaftLogState::<T> { vote: v.vote, last: v.last, committed: v.committed, purged: v.purged, user_data: v.user_data } == v);
    }
}
/// parse one value off the front: s == enc(x) ++ tail  ==>  dec(s) == Some((x, |enc(x)|)) and what follows is tail
pub proof fn lemma_dec_step<X: codeq::EncSpec>(s: Seq<u8>, x: X, tail: Seq<u8>)
    requires s == x.enc() + tail
    ensures X::dec(s) == Some((x, x.enc().len())), s.skip(x.enc().len() as int) == tail
{
    X::law_dec_enc(x, tail);
    lemma_concat_take_skip(x.enc(), tail);
}
/// the fields of a record with type tag `t`, parsed from `s1`
pub open spec fn dec_fields<T: Types>(t: u32, s1: Seq<u8>) -> Option<(WALRecord<T>, nat)> {
    if t == 0 { match T::Vote::dec(s1) { Some((v, n)) => Some((WALRecord::SaveVote(v), n)), None => None } }
    else if t == 1 { match T::LogId::dec(s1) { None => None, Some((l, n1)) => match T::LogPayload::dec(s1.skip(n1 as int)) { None => None, Some((p, n2)) => Some((WALRecord::Append(l, p), n1 + n2)) } } }
    else if t == 2 { match T::LogId::dec(s1) { Some((l, n)) => Some((WALRecord::Commit(l), n)), None => None } }
    else if t == 3 { match Option::<T::LogId>::dec(s1) { Some((l, n)) => Some((WALRecord::TruncateAfter(l), n)), None => None } }
    else if t == 4 { match T::LogId::dec(s1) { Some((l, n)) => Some((WALRecord::PurgeUpto(l), n)), None => None } }
    else if t == 5 { match RaftLogState::<T>::dec(s1) { Some((st, n)) => Some((WALRecord::State(st), n)), None => None } }
    else { None }
}
impl<T: Types> codeq::EncSpec for WALRecord<T> {
    /// type tag, fields, 8-byte checksum of tag+fields
    open spec fn enc(&self) -> Seq<u8> { rec_body(*self) + be64(crc(rec_body(*self))) }
    /// UnexpectedEof is only admissible when the input is shorter than a type tag or carries a KNOWN type tag (0..=5):
    /// an unknown tag on a complete record is InvalidData
    open spec fn err_ok(input: Seq<u8>, k: IoErrorKind) -> bool {
        k == IoErrorKind::UnexpectedEof ==> input.len() < 4 || (tag_known(input) && (u32_of_be(input.take(4)) == 5 ==> RaftLogState::<T>::err_ok(input.skip(4), k)))
    }
    /// 4-byte tag, the fields of that record type, then the 8-byte checksum of tag+fields
    open spec fn dec(s: Seq<u8>) -> Option<(Self, nat)> {
        if s.len() < 4 { None } else {
            match dec_fields::<T>(u32_of_be(s.take(4)), s.skip(4)) {
                None => None,
                Some((rec, n)) => {
                    let s2 = s.skip(4).skip(n as int);
                    if s2.len() >= 8 && s2.take(8) == be64(crc(s.take(4 + n as int))) { Some((rec, 4 + n + 8)) } else { None }
                }
            }
        }
    }
    proof fn law_dec_enc(v: Self, rest: Seq<u8>) {
        let tag = be32(rec_tag(v)); let f = rec_fields(v); let c = be64(crc(rec_body(v)));
        let cr = c + rest;
        let s = v.enc() + rest;
        lemma_be32_inv(rec_tag(v));
        axiom_be64_len(crc(rec_body(v)));
        // s == tag ++ (f ++ (c ++ rest)) == rec_body ++ (c ++ rest)
        lemma_concat_assoc(tag + f, c, rest);
        lemma_concat_assoc(tag, f, cr);
        assert(s == tag + (f + cr));
        assert(s == rec_body(v) + cr);
        lemma_concat_take_skip(tag, f + cr);
        lemma_concat_take_skip(rec_body(v), cr);
        lemma_concat_take_skip(c, rest);
        let s1 = s.skip(4);
        assert(s1 == f + cr);
        assert(s.take(4) == tag);
        lemma_wal_fields_step::<T>(v, s1, cr);
        assert(rec_body(v).len() == 4 + f.len());
        assert(s.take(4 + f.len() as int) == rec_body(v));
        assert(s1.skip(f.len() as int) == cr);
        assert(cr.take(8) == c);
        assert(v.enc().len() == 4 + f.len() + 8);
    }
}
/// the fields of `v` parse back off the front of s1 == fields(v) ++ tail, and what follows is tail
pub proof fn lemma_wal_fields_step<T: Types>(v: WALRecord<T>, s1: Seq<u8>, tail: Seq<u8>)
    requires s1 == rec_fields(v) + tail
    ensures dec_fields::<T>(rec_tag(v), s1) == Some((v, rec_fields(v).len())), s1.skip(rec_fields(v).len() as int) == tail
{
    lemma_concat_take_skip(rec_fields(v), tail);
    match v {
        WALRecord::SaveVote(x) => { lemma_dec_step::<T::Vote>(s1, x, tail); }
        WALRecord::Append(l, p) => {
            lemma_concat_assoc(l.enc(), p.enc(), tail);
            lemma_dec_step::<T::LogId>(s1, l, p.enc() + tail);
            lemma_dec_step::<T::LogPayload>(s1.skip(l.enc().len() as int), p, tail);
            assert((l.enc() + p.enc()).len() == l.enc().len() + p.enc().len());
        }
        WALRecord::Commit(l) => { lemma_dec_step::<T::LogId>(s1, l, tail); }
        WALRecord::TruncateAfter(l) => { lemma_dec_step::<Option<T::LogId>>(s1, l, tail); }
        WALRecord::PurgeUpto(l) => { lemma_dec_step::<T::LogId>(s1, l, tail); }
        WALRecord::State(st) => { lemma_dec_step::<RaftLogState<T>>(s1, st, tail); }
    }
}

pub open spec fn mk_state<T: Types>(vote: Option<T::Vote>, last: Option<T::LogId>, committed: Option<T::LogId>, purged: Option<T::LogId>, user_data: Option<T::UserData>) -> RaftLogState<T> { RaftLogState { vote, last, committed, purged, user_data } }


pub proof fn lemma_opt_small<T: Types>(s: RaftLogState<T>)
    ensures s.vote.enc().len() <= 0x100_0000_0000_0000, s.last.enc().len() <= 0x100_0000_0000_0000, s.committed.enc().len() <= 0x100_0000_0000_0000,
        s.purged.enc().len() <= 0x100_0000_0000_0000, s.user_data.enc().len() <= 0x100_0000_0000_0000, s.enc().len() < 0x600_0000_0000_0000,
{
    if let Some(v) = s.vote { T::law_vote_small(v); }
    if let Some(v) = s.last { T::law_logid_small(v); }
    if let Some(v) = s.committed { T::law_logid_small(v); }
    if let Some(v) = s.purged { T::law_logid_small(v); }
    if let Some(v) = s.user_data { T::law_userdata_small(v); }
}
pub proof fn lemma_fields_small<T: Types>(r: WALRecord<T>)
    ensures rec_fields(r).len() < 0x600_0000_0000_0000
{
    match r {
        WALRecord::SaveVote(v) => { T::law_vote_small(v); }
        WALRecord::Append(l, p) => { T::law_logid_small(l); T::law_payload_small(p); }
        WALRecord::Commit(l) => { T::law_logid_small(l); }
        WALRecord::TruncateAfter(l) => { if let Some(v) = l { T::law_logid_small(v); } }
        WALRecord::PurgeUpto(l) => { T::law_logid_small(l); }
        WALRecord::State(s) => { lemma_opt_small::<T>(s); }
    }
}


/// concatenated encodings of a sequence of records (what a chunk file holds)
pub open spec fn concat_enc<T: Types>(rs: Seq<WALRecord<T>>) -> Seq<u8>
    decreases rs.len()
{
    if rs.len() == 0 { Seq::empty() } else { concat_enc(rs.drop_last()) + rs.last().enc() }
}
pub proof fn lemma_concat_enc_push<T: Types>(rs: Seq<WALRecord<T>>, r: WALRecord<T>)
    ensures concat_enc(rs.push(r)) == concat_enc(rs) + r.enc()
{
    assert(rs.push(r).drop_last() =~= rs);
}
