// ===== prelude/codec_recs.rs: enc() of RaftLogState and WALRecord as spec functions (the C12 oracle: tag, fields in declaration order, checksum) =====
/// body of a record: 4-byte big-endian type tag followed by the fields in declaration order
pub open spec fn rec_tag<T: Types>(r: WALRecord<T>) -> u32 {
    match r { WALRecord::SaveVote(_) => 0, WALRecord::Append(_, _) => 1, WALRecord::Commit(_) => 2, WALRecord::TruncateAfter(_) => 3, WALRecord::PurgeUpto(_) => 4, WALRecord::State(_) => 5 }
}
pub open spec fn rec_fields<T: Types>(r: WALRecord<T>) -> Seq<u8> {
    match r {
        WALRecord::SaveVote(v) => v.enc(),
        WALRecord::Append(l, p) => l.enc() + p.enc(),
        WALRecord::Commit(l) => l.enc(),
        WALRecord::TruncateAfter(l) => l.enc(),
        WALRecord::PurgeUpto(l) => l.enc(),
        WALRecord::State(s) => s.enc(),
    }
}
pub open spec fn tag_known(input: Seq<u8>) -> bool { exists|t: u32| t <= 5 && #[trigger] be32(t) == input.take(4) }
pub open spec fn rec_body<T: Types>(r: WALRecord<T>) -> Seq<u8> { be32(rec_tag(r)) + rec_fields(r) }

impl<T: Types> codeq::EncSpec for RaftLogState<T> {
    /// version byte 1, then the five optional fields in declaration order
    open spec fn enc(&self) -> Seq<u8> { seq![1u8] + self.vote.enc() + self.last.enc() + self.committed.enc() + self.purged.enc() + self.user_data.enc() }
    open spec fn err_ok(input: Seq<u8>, k: IoErrorKind) -> bool { true }
}
impl<T: Types> codeq::EncSpec for WALRecord<T> {
    /// type tag, fields, 8-byte checksum of tag+fields
    open spec fn enc(&self) -> Seq<u8> { rec_body(*self) + be64(crc(rec_body(*self))) }
    /// UnexpectedEof is only admissible when the input is shorter than a type tag or carries a KNOWN type tag (0..=5):
    /// an unknown tag on a complete record is InvalidData
    open spec fn err_ok(input: Seq<u8>, k: IoErrorKind) -> bool {
        k == IoErrorKind::UnexpectedEof ==> input.len() < 4 || tag_known(input)
    }
}

pub open spec fn mk_state<T: Types>(vote: Option<T::Vote>, last: Option<T::LogId>, committed: Option<T::LogId>, purged: Option<T::LogId>, user_data: Option<T::UserData>) -> RaftLogState<T> { RaftLogState { vote, last, committed, purged, user_data } }


pub proof fn lemma_opt_small<T: Types>(s: RaftLogState<T>)
    ensures s.vote.enc().len() <= 0x100_0000_0000_0000, s.last.enc().len() <= 0x100_0000_0000_0000, s.committed.enc().len() <= 0x100_0000_0000_0000,
        s.purged.enc().len() <= 0x100_0000_0000_0000, s.user_data.enc().len() <= 0x100_0000_0000_0000, s.enc().len() < 0x600_0000_0000_0000,
{
    if let Some(v) = s.vote { T::law_vote_small(v); }
    if let Some(v) = s.last { T::law_logid_small(v); }
    if let Some(v) = s.committed { T::law_logid_small(v); }
    if let Some(v) = s.purged { T::law_logid_small(v); }
    if let Some(v) = s.user_data { T::law_userdata_small(v); }
}
pub proof fn lemma_fields_small<T: Types>(r: WALRecord<T>)
    ensures rec_fields(r).len() < 0x600_0000_0000_0000
{
    match r {
        WALRecord::SaveVote(v) => { T::law_vote_small(v); }
        WALRecord::Append(l, p) => { T::law_logid_small(l); T::law_payload_small(p); }
        WALRecord::Commit(l) => { T::law_logid_small(l); }
        WALRecord::TruncateAfter(l) => { if let Some(v) = l { T::law_logid_small(v); } }
        WALRecord::PurgeUpto(l) => { T::law_logid_small(l); }
        WALRecord::State(s) => { lemma_opt_small::<T>(s); }
    }
}


/// concatenated encodings of a sequence of records (what a chunk file holds)
pub open spec fn concat_enc<T: Types>(rs: Seq<WALRecord<T>>) -> Seq<u8>
    decreases rs.len()
{
    if rs.len() == 0 { Seq::empty() } else { concat_enc(rs.drop_last()) + rs.last().enc() }
}
pub proof fn lemma_concat_enc_push<T: Types>(rs: Seq<WALRecord<T>>, r: WALRecord<T>)
    ensures concat_enc(rs.push(r)) == concat_enc(rs) + r.enc()
{
    assert(rs.push(r).drop_last() =~= rs);
}
