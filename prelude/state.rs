// ===== prelude/state.rs: RaftLogState / WALRecord definitions (copied) + the reference step functions (DESIGN 3.2, written from the property text) =====
//@struct src/raft_log/state_machine/raft_log_state.rs RaftLogState
//@enum src/raft_log/wal/wal_record.rs WALRecord

// derive(Clone) (E16)
impl<T: Types> Clone for RaftLogState<T> {
    #[verifier::external_body]
    fn clone(&self) -> (r: Self)
        ensures laws::<T>() ==> r == *self
    { unimplemented!() }
}

/// a >= b for Options under a partial order (None least)
pub open spec fn oge_p<V: PartialOrd>(a: Option<V>, b: Option<V>) -> bool {
    match (a, b) {
        (_, None) => true,
        (None, Some(_)) => false,
        (Some(x), Some(y)) => PartialOrdSpec::partial_cmp_spec(&x, &y) == Some(Ordering::Greater) || PartialOrdSpec::partial_cmp_spec(&x, &y) == Some(Ordering::Equal),
    }
}

// ---- reference log, state part: which writes are accepted and what the state becomes ----
pub open spec fn vote_accepts<T: Types>(s: RaftLogState<T>, v: T::Vote) -> bool { oge_p(Some(v), s.vote) }
pub open spec fn append_accepts<T: Types>(s: RaftLogState<T>, id: T::LogId) -> bool {
    !ole(Some(id), s.last) && (s.last is Some ==> onext::<T>(s.last) == idx::<T>(id))
}
pub open spec fn commit_accepts<T: Types>(s: RaftLogState<T>, id: T::LogId) -> bool { !olt(Some(id), s.committed) }

pub open spec fn ref_save_vote<T: Types>(s: RaftLogState<T>, v: T::Vote) -> RaftLogState<T> { RaftLogState { vote: Some(v), ..s } }
pub open spec fn ref_append<T: Types>(s: RaftLogState<T>, id: T::LogId) -> RaftLogState<T> { RaftLogState { last: Some(id), ..s } }
pub open spec fn ref_commit<T: Types>(s: RaftLogState<T>, id: T::LogId) -> RaftLogState<T> { RaftLogState { committed: Some(id), ..s } }
pub open spec fn ref_truncate_after<T: Types>(s: RaftLogState<T>, p: Option<T::LogId>) -> RaftLogState<T> { RaftLogState { last: omin(s.last, p), ..s } }
pub open spec fn ref_purge<T: Types>(s: RaftLogState<T>, id: T::LogId) -> RaftLogState<T> { RaftLogState { purged: omax(s.purged, Some(id)), last: omax(s.last, Some(id)), ..s } }

pub open spec fn state_accepts<T: Types>(s: RaftLogState<T>, rec: WALRecord<T>) -> bool {
    match rec {
        WALRecord::SaveVote(v) => vote_accepts::<T>(s, v),
        WALRecord::Append(id, _p) => append_accepts::<T>(s, id),
        WALRecord::Commit(id) => commit_accepts::<T>(s, id),
        WALRecord::TruncateAfter(_p) => true,
        WALRecord::PurgeUpto(_id) => true,
        WALRecord::State(_st) => true,
    }
}
pub open spec fn ref_state_step<T: Types>(s: RaftLogState<T>, rec: WALRecord<T>) -> RaftLogState<T> {
    match rec {
        WALRecord::SaveVote(v) => ref_save_vote::<T>(s, v),
        WALRecord::Append(id, _p) => ref_append::<T>(s, id),
        WALRecord::Commit(id) => ref_commit::<T>(s, id),
        WALRecord::TruncateAfter(p) => ref_truncate_after::<T>(s, p),
        WALRecord::PurgeUpto(id) => ref_purge::<T>(s, id),
        WALRecord::State(st) => st,
    }
}
