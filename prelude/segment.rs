// ===== prelude/segment.rs: stand-in for codeq::{Segment<Crc32fast>, Offset, Size} (ASSUMED contracts of the dependency) =====
pub struct Offset(pub u64);
pub struct Size(pub u64);
impl core::ops::Deref for Size { type Target = u64; fn deref(&self) -> (r: &u64) ensures *r == self.0 { &self.0 } }
impl core::ops::Deref for Offset { type Target = u64; fn deref(&self) -> (r: &u64) ensures *r == self.0 { &self.0 } }
#[derive(Clone, Copy, PartialEq, Eq)]
pub struct Segment { pub offset: u64, pub size: u64 }
impl Segment {
    pub fn new(offset: u64, size: u64) -> (r: Segment) ensures r.offset == offset, r.size == size { Segment { offset, size } }
    pub fn offset(&self) -> (r: Offset) ensures r.0 == self.offset { Offset(self.offset) }
    pub fn size(&self) -> (r: Size) ensures r.0 == self.size { Size(self.size) }
    pub fn start(&self) -> (r: Offset) ensures r.0 == self.offset { Offset(self.offset) }
    /// codeq: `self.offset() + self.size()` (u64 addition; overflow panics in debug builds)
    pub fn end(&self) -> (r: Offset) requires self.offset + self.size <= u64::MAX ensures r.0 == self.offset + self.size { Offset(self.offset + self.size) }
}
