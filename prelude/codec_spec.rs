// ===== prelude/codec_spec.rs: the encoding of a record as a spec function; contract instance of WALRecord::encode for W = &mut Vec<u8> =====
/// `enc(rec)`: the byte string WALRecord::encode emits (defined in unit U8 from the field encoders; opaque here)
pub uninterp spec fn enc_record<T: Types>(rec: WALRecord<T>) -> Seq<u8>;
/// every record has a 4-byte tag and an 8-byte checksum (|enc| >= 12); ASSUMED magnitude: an encoded record is shorter than 2^61 bytes
pub broadcast axiom fn axiom_enc_record_len<T: Types>(rec: WALRecord<T>)
    ensures #[trigger] enc_record::<T>(rec).len() >= 12, enc_record::<T>(rec).len() < 0x2000_0000_0000_0000;
impl<T: Types> WALRecord<T> {
    /// ASSUMED instance (W = &mut Vec<u8>) of the generic `encode<W: io::Write>` contract proved in unit U8.
    /// Writing into a Vec never fails and the user codecs only fail on writer errors, so the result is Ok.
    #[verifier::external_body]
    pub fn encode(&self, w: &mut Vec<u8>) -> (r: Result<usize, io::Error>)
        ensures r is Ok, final(w)@ == old(w)@ + enc_record::<T>(*self), r->Ok_0 == enc_record::<T>(*self).len(),
    { unimplemented!() }
}
