// ===== prelude/filecontent.rs: the bytes of a chunk file as seen by positional reads (ASSUMED; see prelude/recovery.rs for the full stand-in used by units U9/U10) =====
impl File {
    pub uninterp spec fn content(&self) -> Seq<u8>;
}
