// ===== prelude/wal_spec.rs: worker request types, RaftLogWAL (copied) and Inv_WAL =====
//@include prelude/wal_reqs.rs
//@struct src/raft_log/wal/mod.rs RaftLogWAL allpub sub=#Arc<AtomicU64>#DoneSeq# attr=#[verifier::reject_recursive_types(T)]

/// `sm.payload_cache.clone()`: the Arc clone of the cache lock handed to the worker (rule E6)
pub struct SharedCacheHandle {}
/// event: a flush worker thread was started that tracks exactly this file entry (FlushWorker::new + spawn; the worker side is unit U7)
pub uninterp spec fn ev_worker_started<T: Types>(fe: FileEntry<T>) -> bool;
/// the last log id recorded by the newest closed chunk (None when there is none): entries up to it live in closed chunk files
pub open spec fn last_closed_last<T: Types>(closed: Map<ChunkId, ClosedChunk<T>>, v: Option<T::LogId>) -> bool {
    (closed.dom().is_empty() ==> v is None) && (forall|k: ChunkId| is_max_key(closed, k) ==> v == closed[k].state.last)
}

/// event: the worker thread has stored `v` into the shared done counter, i.e. it has finished every request with seq <= v
/// (the store sites are in FlushWorker::run_inner, unit U7; that the counter is monotone and FIFO-ordered is the ASSUMED meaning)
pub uninterp spec fn ev_worker_done(v: u64) -> bool;
/// `self.done_seq.load(Ordering::Relaxed)` (rule E21)
#[verifier::external_body]
pub fn done_seq_load(d: &DoneSeq) -> (v: u64) ensures ev_worker_done(v) { unimplemented!() }
/// what wait_worker_idle establishes: the worker was observed to have finished request `upto`
pub open spec fn worker_idle_observed(upto: u64) -> bool { exists|v: u64| #[trigger] ev_worker_done(v) && v >= upto }

/// magnitudes assumed small (DESIGN 8.6): 2^62
pub open spec fn small(n: int) -> bool { n < 0x4000_0000_0000_0000 }

pub open spec fn is_write<T: Types>(m: SeqRequest<T>, seq: u64, upto: u64, data: Seq<u8>, cb: Option<T::Callback>) -> bool {
    m.seq == seq && (match m.req { WorkerRequest::Write(w) => w.upto_offset == upto && w.data@ == data && w.sync && w.callback == cb, _ => false })
}
pub open spec fn is_append_file<T: Types>(m: SeqRequest<T>, seq: u64, offset: u64, fid: int, prev_last: Option<T::LogId>) -> bool {
    m.seq == seq && (match m.req { WorkerRequest::AppendFile(fe) => fe.starting_offset == offset && fe.f.fid() == fid && fe.prev_last_log_id == prev_last && fe.sync_id == 0, _ => false })
}
pub open spec fn is_remove<T: Types>(m: SeqRequest<T>, seq: u64, paths: Seq<String>) -> bool {
    m.seq == seq && (match m.req { WorkerRequest::RemoveChunks { chunk_paths } => chunk_paths@ == paths, _ => false })
}

impl<T: Types> RaftLogWAL<T> {
    /// what every operation preserves unconditionally (enough for panic-freedom)
    pub open spec fn wal_safe(&self) -> bool {
        &&& self.open.chunk.inv()
        &&& forall|k: ChunkId| #[trigger] self.closed@.contains_key(k) ==> self.closed@[k].chunk.inv() && self.closed@[k].chunk.sp_start() <= self.open.chunk.sp_end()
    }
    /// Inv_WAL: closed chunks are keyed by their start, are non-empty, and each one abuts the next chunk (closed or open)
    pub open spec fn wal_inv(&self) -> bool {
        &&& self.wal_safe()
        &&& self.open.chunk.sp_start() < self.open.chunk.sp_end()
        &&& forall|k: ChunkId| #[trigger] self.closed@.contains_key(k) ==> {
                &&& self.closed@[k].chunk.sp_start() == k.0
                &&& self.closed@[k].chunk.sp_start() < self.closed@[k].chunk.sp_end()
                &&& self.closed@[k].chunk.sp_end() <= self.open.chunk.sp_start()
                &&& (self.closed@[k].chunk.sp_end() == self.open.chunk.sp_start() || self.closed@.contains_key(ChunkId(self.closed@[k].chunk.sp_end())))
            }
    }
    pub open spec fn sp_full(&self) -> bool {
        self.open.chunk.offs().len() - 1 >= self.config.sp_chunk_max_records() || (self.open.chunk.sp_end() - self.open.chunk.sp_start()) as usize >= self.config.sp_chunk_max_size()
    }
    pub open spec fn mag_ok(&self) -> bool { small(self.open.chunk.sp_end() as int) && small(self.sent_seq as int) }
    /// the same magnitudes with room for the one record just journaled (< 2^62 + 2^61)
    pub open spec fn mag_ok2(&self) -> bool { self.open.chunk.sp_end() < 0x6000_0000_0000_0000 && small(self.sent_seq as int) }
}
