"""Run Verus on a generated unit and turn its diagnostics into obligations."""
import hashlib
import json
import os
import re
import shutil
import subprocess
import tempfile
import time

from .gen import Generator, ROOT, REPO
from .rustsrc import LostAnchor

VERUS = shutil.which('verus') or '/opt/veriftools/verus/verus'

VERIF_MSGS = (
    'postcondition not satisfied', 'precondition not satisfied', 'invariant not satisfied',
    'assertion failed', 'possible arithmetic underflow/overflow', 'possible division by zero',
    'decreases not satisfied', 'could not prove termination', 'loop invariant not',
    'unreachable', 'recommendation not met', 'assert_by', 'index out of bounds', 'possible bit shift',
    'cannot show', 'not satisfied',
)


class Failure:
    def __init__(self, **kw):
        self.__dict__.update(kw)

    def to_json(self):
        return {k: v for k, v in self.__dict__.items() if k not in ('fnrec',)}


class UnitResult:
    def __init__(self, unit):
        self.unit = unit
        self.status = 'ok'        # ok | failed | undecided
        self.reason = ''
        self.failures = []        # Failure (main variants)
        self.known_failures = []  # Failure in __kf_ twins
        self.fns = []
        self.items = []
        self.obligations = {}     # qual -> {kind: n}
        self.times = {}
        self.verus = {}
        self.rules_used = {}
        self.fuzzy = []
        self.assumptions = []
        self.gen_path = None
        self.gen_sha = None
        self.wall_s = 0.0
        self.raw_errors = []
        self.cmd = ''
        self.reach = None


def scan_assumptions(text):
    res = []
    for i, ln in enumerate(text.split('\n'), 1):
        s = ln.strip()
        if s.startswith('//'):
            continue
        for kw in ('assume_specification', 'external_body', 'assume(', 'admit(', 'uninterp ', 'axiom fn', 'external_type_specification', 'exec_allows_no_decreases_clause', 'external]'):
            if kw in s:
                res.append('%s: %s' % (kw.strip('( '), s[:160]))
                break
        else:
            # an abstract trait proof fn is a law ASSUMED of every implementor the proof cannot see (the user's Types, a generic reader/writer)
            if re.search(r'\bproof fn law_\w+', s) and '{' not in s:
                res.append('trait law (assumed of generic implementors): %s' % s[:160])
    return res


def count_air_obligations(log_dir):
    counts = {}
    for fn in os.listdir(log_dir) if os.path.isdir(log_dir) else []:
        if not fn.endswith('.air'):
            continue
        cur = None
        lines = open(os.path.join(log_dir, fn), errors='replace').read().split('\n')
        for i, ln in enumerate(lines):
            if ln.startswith(';; Function-Def '):
                cur = ln.split()[2]
            elif '(location' in ln and cur:
                kind = lines[i + 1].strip().strip('()').split('" "')[0].strip('"') if i + 1 < len(lines) else '?'
                counts.setdefault(cur, {})
                counts[cur][kind] = counts[cur].get(kind, 0) + 1
    return counts


def run_verus(path, rlimit=None, seed=None, log_air=True, extra=(), multiple_errors=20):
    log_dir = tempfile.mkdtemp(prefix='vlog_')
    cmd = [VERUS, path, '--triggers-mode', 'silent', '--output-json', '--time', '--expand-errors',
           '--multiple-errors', str(multiple_errors), '--error-format=json']
    if rlimit:
        cmd += ['--rlimit', str(rlimit)]
    if seed:
        cmd += ['--smt-option', 'smt.random_seed=%d' % seed]
    if log_air:
        cmd += ['--log-dir', log_dir, '--log', 'air-final']
    cmd += list(extra)
    t0 = time.time()
    p = subprocess.run(cmd, capture_output=True, text=True, cwd=os.path.dirname(path))
    wall = time.time() - t0
    try:
        js = json.loads(p.stdout)
    except Exception:
        js = None
    diags = []
    for ln in p.stderr.split('\n'):
        ln = ln.strip()
        if ln.startswith('{'):
            try:
                diags.append(json.loads(ln))
            except Exception:
                pass
    counts = count_air_obligations(log_dir) if log_air else {}
    shutil.rmtree(log_dir, ignore_errors=True)
    return dict(cmd=' '.join(cmd), rc=p.returncode, json=js, diags=diags, stderr=p.stderr, wall=wall, air=counts)


def fn_at(g, line):
    for f in g.fns:
        if f['start_line'] <= line <= f['end_line']:
            return f
    return None


def classify(g, unit, diags):
    """-> (failures, aux_errors, hard_errors, rlimit_fns)"""
    failures, aux, hard, rlimit = [], [], [], []
    last = None
    for d in diags:
        msg = d.get('message', '')
        lvl = d.get('level')
        if lvl == 'note' and msg.startswith('diagnostics via expansion') and last is not None:
            last.expansion = msg
            continue
        if lvl != 'error':
            continue
        if msg.startswith('aborting due to'):
            continue
        spans = d.get('spans', [])
        prim = [s for s in spans if s.get('is_primary')]
        if 'rlimit' in msg.lower() or 'resource limit' in msg.lower():
            ln = prim[0]['line_start'] if prim else 0
            f = fn_at(g, ln)
            rlimit.append((f['qual'] if f else '?', msg))
            continue
        if d.get('code') or not any(k in msg for k in VERIF_MSGS):
            hf = None
            for s_ in prim + spans:
                hf = fn_at(g, s_['line_start'])
                if hf:
                    break
            hard.append((msg + ' @' + (('%s:%d' % (prim[0]['file_name'], prim[0]['line_start'])) if prim else '?'), (hf.get('as_name') or hf['qual']) if hf else None))
            continue
        # which function?
        lines = [s['line_start'] for s in spans]
        f = None
        for s in prim + spans:
            f = fn_at(g, s['line_start'])
            if f:
                break
        # the clause the error names
        clause = None
        callee_clause = None
        for s in spans:
            info = g.out.map[s['line_start'] - 1] if 0 < s['line_start'] <= len(g.out.map) else None
            if info and info.get('kind') == 'clause':
                lab = s.get('label') or ''
                if 'precondition' in lab or ('precondition' in msg and not s.get('is_primary')):
                    callee_clause = info['clause']
                elif clause is None:
                    clause = info['clause']
        if 'precondition not satisfied' in msg and clause is not None and callee_clause is None:
            callee_clause, clause = clause, None
        # source location of the primary span
        srcloc = None
        for s in prim:
            info = g.out.map[s['line_start'] - 1] if 0 < s['line_start'] <= len(g.out.map) else None
            if info and info.get('kind') == 'src' and info.get('line'):
                srcloc = '%s:%d' % (info['src'], info['line'])
                break
        text = (prim[0]['text'][0]['text'].strip() if prim and prim[0].get('text') else '')
        # an explicit obligation marker /*[C04 name]*/ on the generated line (ghost text spliced by E9 / anchors)
        marker = None
        for s_ in prim:
            for ln_ in range(s_['line_start'], s_['line_end'] + 1):
                if 0 < ln_ <= len(g.out.lines):
                    mk = re.search(r'/\*\[([A-Z0-9, ]+?)\s+([\w.-]+)\]\*/', g.out.lines[ln_ - 1])
                    if mk:
                        marker = ([t for t in re.split(r'[ ,]+', mk.group(1)) if t], mk.group(2))
                        break
            if marker:
                break
        if marker is None and (('postcondition' in msg and clause is None) or ('precondition' in msg and callee_clause is None)):
            # the failed clause is a trait-level `ensures` in a prelude (e.g. codeq::Decode::decode): its marker sits on the secondary span
            for s_ in sorted(spans, key=lambda q: (q['line_end'] - q['line_start'], q['line_start'])):   # the narrowest span names the failing conjunct
                if s_.get('is_primary'):
                    continue
                for ln_ in range(s_['line_start'], s_['line_end'] + 1):
                    if 0 < ln_ <= len(g.out.lines):
                        mk = re.search(r'/\*\[([A-Z0-9, ]+?)\s+([\w.-]+)\]\*/', g.out.lines[ln_ - 1])
                        if mk:
                            marker = ([t for t in re.split(r'[ ,]+', mk.group(1)) if t], mk.group(2))
                            break
                if marker:
                    break
        prim_ghost = False
        for s_ in prim:
            info = g.out.map[s_['line_start'] - 1] if 0 < s_['line_start'] <= len(g.out.map) else None
            if info and info.get('kind') == 'ghost':
                prim_ghost = True
        if f is None:
            aux.append('%s @gen:%s | %s' % (msg, lines, text[:120]))
            last = Failure(expansion='')
            continue
        kind = ('post' if 'postcondition' in msg else 'pre' if 'precondition' in msg else
                'inv' if 'invariant' in msg else 'assert' if 'assertion' in msg else
                'overflow' if 'overflow' in msg else 'termination' if ('decreases' in msg or 'termination' in msg) else 'other')
        if marker is not None and f is not None and not (clause is not None and kind in ('post', 'inv')) and not (kind == 'pre' and callee_clause is not None):
            props = marker[0]
            oid = '%s.%s.%s.%s@%s' % (','.join(props), unit, f['qual'], marker[1], srcloc or 'ghost')
            ctext = text
        elif kind == 'pre' and callee_clause is None and prim_ghost:
            props = f['props']
            h = hashlib.sha1(text.encode()).hexdigest()[:6]
            oid = '%s.%s.%s.lemma-pre@ghost-%s' % (','.join(props), unit, f['qual'], h)
            ctext = text
        elif clause is not None and kind in ('post', 'inv'):
            props = clause.tags or f['props']
            oid = clause.ident(unit)
            ctext = clause.text
        elif kind == 'pre':
            if callee_clause is not None:
                props = callee_clause.tags or f['props']
                oid = '%s.%s.%s.pre[%s.%s]@%s' % (','.join(props), unit, f['qual'], callee_clause.fn.qual, callee_clause.name, srcloc or 'ghost')
                ctext = callee_clause.text
            else:
                # precondition of a std / vstd function (unwrap, index, range, ...) => safety
                props = f['safety']
                ext = [s for s in spans if not s.get('is_primary')]
                ctext = (ext[0]['text'][0]['text'].strip() if ext and ext[0].get('text') else '')
                oid = '%s.%s.%s.safety.std-precondition@%s' % (','.join(props), unit, f['qual'], srcloc or 'ghost')
        elif kind == 'overflow' or kind == 'other':
            props = f['safety']
            oid = '%s.%s.%s.safety.%s@%s' % (','.join(props), unit, f['qual'], 'arith' if kind == 'overflow' else 'other', srcloc or 'ghost')
            ctext = text
        else:
            props = f['props']
            h = hashlib.sha1(text.encode()).hexdigest()[:6]
            oid = '%s.%s.%s.%s@%s' % (','.join(props), unit, f['qual'], kind, srcloc or ('ghost-' + h))
            ctext = text
        fl = Failure(oid=oid, props=list(props), fn=f['qual'], emit_name=f['emit_name'], known=f['known'],
                     kind=kind, message=msg, clause=ctext, srcloc=srcloc, src=f['src'], src_lines=f['src_lines'],
                     code=text, expansion='', clause_known=(clause.known if clause is not None else (callee_clause.known if callee_clause is not None else None)))
        failures.append(fl)
        last = fl
    return failures, aux, hard, rlimit


def run_unit(unit_path, gen_dir=None, rlimit=None, seed=None, reach=False):
    """Verify one unit.  If Verus rejects the generated text because of individual extracted functions (a construct outside its
    reach introduced by an edit), those functions are re-emitted as contract only and the unit is verified again: only the
    properties that depend on the excluded functions become undecided, the rest of the unit still gets a verdict."""
    excluded = []
    res = None
    hard_first = []
    for _attempt in range(4):
        res = _run_unit_once(unit_path, gen_dir, rlimit, seed, excluded)
        hard_first += getattr(res, 'hard', [])
        bad = [f for (_m, f) in getattr(res, 'hard', []) if f]
        if res.status == 'undecided' and getattr(res, 'hard', None) and bad and all(f for (_m, f) in res.hard) and not set(bad) <= set(excluded):
            excluded = sorted(set(excluded) | set(bad))
            continue
        break
    res.excluded = excluded
    res.hard_first = hard_first
    if excluded and res.status != 'undecided':
        res.excluded_reason = 'functions outside the verifier\'s reach in their current shape (contract assumed, properties depending on them undecided): ' + ', '.join(excluded)
    return res


def _run_unit_once(unit_path, gen_dir=None, rlimit=None, seed=None, exclude=()):
    unit = os.path.splitext(os.path.basename(unit_path))[0]
    res = UnitResult(unit)
    t0 = time.time()
    gen_dir = gen_dir or os.path.join(ROOT, 'gen')
    try:
        g = Generator(unit_path, exclude).run()
    except LostAnchor as e:
        res.status, res.reason = 'undecided', 'lost anchor: %s' % e
        res.wall_s = time.time() - t0
        return res
    path = g.write(gen_dir)
    text = open(path).read()
    res.gen_path = path
    res.gen_sha = hashlib.sha256(text.encode()).hexdigest()
    res.items = g.items
    res.rules_used = g.rules_used
    res.fuzzy = g.fuzzy
    res.lost = g.lost
    res.assumptions = scan_assumptions(text)
    res.fns = [dict(qual=f['qual'], emit_name=f['emit_name'], known=f['known'], props=f['props'], safety=f['safety'],
                    src=f['src'], src_lines=f['src_lines'], mode=f['mode'], excluded=f.get('excluded', False),
                    clauses=[dict(id=c.ident(unit), kind=c.kind, text=c.text, tags=c.tags or f['props'], known=c.known) for c, _a, _b, _k in f['clauses']])
               for f in g.fns]
    rl = rlimit or 20
    out = run_verus(path, rlimit=rl, seed=seed)
    res.cmd = out['cmd']
    failures, aux, hard, rlim = classify(g, unit, out['diags'])
    if rlim and not hard:
        # one retry with 4x rlimit and another seed
        out2 = run_verus(path, rlimit=rl * 4, seed=(seed or 0) + 17)
        f2, a2, h2, r2 = classify(g, unit, out2['diags'])
        if len(r2) <= len(rlim):
            out, failures, aux, hard, rlim = out2, f2, a2, h2, r2
            res.cmd = out['cmd']
    js = out['json']
    res.hard = hard
    res.raw_errors = [d.get('rendered', d.get('message', '')) for d in out['diags'] if d.get('level') == 'error'][:40]
    if js is None:
        res.status, res.reason = 'undecided', 'verus produced no JSON: ' + out['stderr'][-2000:]
        res.wall_s = time.time() - t0
        return res
    res.verus = js.get('verus', {})
    vr = js.get('verification-results', {})
    res.verified_count = vr.get('verified', 0)
    try:
        fb = []
        for mod in js['times-ms']['smt']['smt-run-module-times']:
            fb += mod.get('function-breakdown', [])
        res.times = {f['function'].split('::', 1)[1]: dict(ms=f['time'], rlimit=f['rlimit'], ok=f['success'], mode=f.get('mode:')) for f in fb}
        res.smt_ms = js['times-ms']['smt']['total']
        res.total_ms = js['times-ms']['total']
    except Exception:
        res.times, res.smt_ms, res.total_ms = {}, 0, 0
    crate = os.path.splitext(os.path.basename(path))[0]
    res.obligations = {k.split('::', 1)[1]: v for k, v in out['air'].items() if k.startswith(crate + '::')}
    if hard or vr.get('encountered-vir-error'):
        res.status = 'undecided'
        res.reason = 'verus rejected the generated text (unsupported construct or type error): ' + '; '.join(m for (m, _f) in hard[:5])
    elif rlim:
        res.status = 'undecided'
        res.reason = 'resource limit exceeded in: ' + ', '.join(sorted(set(r[0] for r in rlim)))
    res.aux_errors = aux
    res.failures = [f for f in failures if not f.known]
    res.known_failures = [f for f in failures if f.known]
    if res.status == 'ok' and aux and not res.failures:
        res.status = 'undecided'
        res.reason = 'an auxiliary lemma of the spec library failed: ' + '; '.join(aux[:3])
    if res.status == 'ok' and res.failures:
        res.status = 'failed'
    if res.fuzzy and res.status == 'failed':
        res.reason = 'note: ' + '; '.join(res.fuzzy)
    res.wall_s = time.time() - t0
    return res


def run_reach(unit_path, gen_dir):
    """Vacuity guard: every contracted function's preconditions must be satisfiable.  Returns (checked, vacuous, note)."""
    unit = os.path.splitext(os.path.basename(unit_path))[0]
    try:
        g = Generator(unit_path, reach=True).run()
    except LostAnchor as e:
        return 0, [], 'lost anchor: %s' % e
    d = os.path.join(gen_dir, 'reach')
    path = g.write(d)
    out = run_verus(path, rlimit=1, log_air=False, multiple_errors=1)
    twins = [f for f in g.fns if f.get('reach')]
    hit = set()
    other = []
    for dg in out['diags']:
        if dg.get('level') != 'error' or dg.get('message', '').startswith('aborting'):
            continue
        prim = [s for s in dg.get('spans', []) if s.get('is_primary')]
        f = fn_at(g, prim[0]['line_start']) if prim else None
        if f is not None and f.get('reach') and ('assertion failed' in dg.get('message', '') or 'rlimit' in dg.get('message', '').lower()):
            hit.add(f['emit_name'])   # `false` is not derivable from the preconditions (within the budget): not vacuous
        elif f is None or not f.get('reach'):
            other.append(dg.get('message', '')[:120])
    if out['json'] is None or (out['json'].get('verification-results', {}).get('encountered-vir-error')):
        return len(twins), [], 'reach file rejected by verus: ' + '; '.join(other[:3])
    vac = [f['qual'] for f in twins if f['emit_name'] not in hit]
    return len(twins), vac, ('' if not other else 'other diagnostics: ' + '; '.join(other[:3]))
