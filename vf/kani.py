"""Secondary engine (DESIGN 7): when Verus rejects an obligation in a function that has a loop-free Kani harness, run that
harness on a scratch copy of the real crate to obtain CONCRETE inputs, generate a plain #[test] from them and replay it on
the real code.  Never decides a property by itself; a harness that finds nothing leaves the violation `no-failing-input-found`."""
import json
import os
import re
import shutil
import subprocess
import tempfile

from .gen import ROOT, REPO

HARNESS = {
    'RaftLogState::update_vote': 'k_update_vote',
    'RaftLogState::append': 'k_append',
    'RaftLogState::commit': 'k_commit',
    'RaftLogState::truncate_after': 'k_truncate_after',
    'RaftLogState::purge': 'k_purge',
    'Types::next_log_index': 'k_next_log_index',
}
STATE = ['vote_has:bool', 'vote_a:u64', 'vote_b:u64', 'last_has:bool', 'last_a:u64', 'last_b:u64', 'committed_has:bool', 'committed_a:u64',
         'committed_b:u64', 'purged_has:bool', 'purged_a:u64', 'purged_b:u64', 'user_data_has:bool']
SCHEMA = {
    'k_update_vote': STATE + ['arg_a:u64', 'arg_b:u64'],
    'k_append': STATE + ['arg_a:u64', 'arg_b:u64'],
    'k_commit': STATE + ['arg_a:u64', 'arg_b:u64'],
    'k_truncate_after': STATE + ['arg_has:bool', 'arg_a:u64', 'arg_b:u64'],
    'k_purge': STATE + ['arg_a:u64', 'arg_b:u64'],
    'k_next_log_index': ['arg_has:bool', 'arg_a:u64', 'arg_b:u64'],
}
CALL = {
    'k_update_vote': 's.update_vote(&(ARG_A, ARG_B))',
    'k_append': 's.append(&(ARG_A, ARG_B))',
    'k_commit': 's.commit(&(ARG_A, ARG_B))',
    'k_truncate_after': 's.truncate_after(ARG_OPT.as_ref())',
    'k_purge': 's.purge(&(ARG_A, ARG_B))',
}
TARGET = os.environ.get('VERIF_KANI_TARGET', '/tmp/verif_kani_target')


def scratch_copy():
    d = tempfile.mkdtemp(prefix='vkani.')
    subprocess.run('git -C /repo ls-files | (cd %s && rsync -a --files-from=- . %s/)' % (REPO, d), shell=True, check=True)
    return d


def opt(v, p):
    return 'Some((%d, %d))' % (v[p + '_a'], v[p + '_b']) if v[p + '_has'] else 'None'


def make_test(harness, v):
    if harness == 'k_next_log_index':
        return ('#[test]\nfn verif_replay() {\n    use crate::Types;\n    let id: Option<(u64, u64)> = %s;\n'
                '    let r = std::panic::catch_unwind(|| crate::testing::TestTypes::next_log_index(id.as_ref()));\n'
                '    assert!(r.is_ok(), "next_log_index panics for {:?}", id);\n}\n' % opt(v, 'arg'))
    st = ('crate::raft_log::state_machine::raft_log_state::RaftLogState::<crate::testing::TestTypes> { vote: %s, last: %s, committed: %s, purged: %s, user_data: %s }'
          % (opt(v, 'vote'), opt(v, 'last'), opt(v, 'committed'), opt(v, 'purged'), 'Some("u".to_string())' if v['user_data_has'] else 'None'))
    call = CALL[harness].replace('ARG_A', str(v.get('arg_a', 0))).replace('ARG_B', str(v.get('arg_b', 0))).replace('ARG_OPT', '(%s as Option<(u64, u64)>)' % opt(v, 'arg') if 'arg_has' in v else '')
    return ('#[test]\nfn verif_replay() {\n    let mut s = %s;\n    let old = s.clone();\n    let r = std::panic::catch_unwind(std::panic::AssertUnwindSafe(|| %s.map_err(|e| e.to_string())));\n'
            '    println!("VERIF-REPLAY old={:?} result={:?} new={:?}", old, r, s);\n}\n' % (st, call))


def counterexample_for(prop, fl, timeout=900):
    h = HARNESS.get(fl.fn)
    if not h:
        return None
    d = scratch_copy()
    try:
        shutil.copy(os.path.join(ROOT, 'kani', 'verif_kani.rs'), os.path.join(d, 'src', 'verif_kani.rs'))
        lib = os.path.join(d, 'src', 'lib.rs')
        open(lib, 'a').write('\n#[cfg(kani)]\nmod verif_kani;\n')
        env = dict(os.environ, CARGO_NET_OFFLINE='true', CARGO_TARGET_DIR=TARGET)
        p = subprocess.run(['cargo', 'kani', '--harness', h, '-Z', 'concrete-playback', '--concrete-playback=print'],
                           cwd=d, env=env, capture_output=True, text=True, timeout=timeout)
        out = p.stdout + p.stderr
        if 'VERIFICATION:- FAILED' not in out:
            return None
        failed = re.findall(r'Failed Checks: (.*)', out)
        vecs = re.findall(r'vec!\[([0-9, ]*)\],?', out)
        vals = []
        for vtxt in vecs:
            bs = [int(x) for x in vtxt.split(',') if x.strip()]
            vals.append(int.from_bytes(bytes(bs), 'little'))
        names = SCHEMA[h]
        if len(vals) < len(names):
            return dict(harness=h, kani='FAILED', failed_checks=failed[:4], values=None, note='could not decode the concrete playback vector')
        v = {}
        for (nm, val) in zip(names, vals):
            k, ty = nm.split(':')
            v[k] = bool(val) if ty == 'bool' else val
        test = make_test(h, v)
        res = dict(harness=h, kani='FAILED', failed_checks=failed[:4], values=v, test=test, instance='LogId = Vote = (u64, u64), lexicographic order')
        res['replay'] = replay_test(res, d)
        return res
    finally:
        shutil.rmtree(d, ignore_errors=True)


def replay_test(fi, d=None):
    own = d is None
    if own:
        d = scratch_copy()
    try:
        open(os.path.join(d, 'src', 'tests', 'test_verif_replay.rs'), 'w').write(fi['test'])
        open(os.path.join(d, 'src', 'tests', 'mod.rs'), 'a').write('\nmod test_verif_replay;\n')
        env = dict(os.environ, CARGO_NET_OFFLINE='true', CARGO_TARGET_DIR=os.environ.get('VERIF_TEST_TARGET', '/tmp/verif_test_target'))
        p = subprocess.run('cargo test --offline --lib verif_replay -- --nocapture 2>&1 | tail -25', shell=True, cwd=d, env=env, capture_output=True, text=True, timeout=1200)
        out = p.stdout
        line = next((l for l in out.split('\n') if 'VERIF-REPLAY' in l or 'panicked' in l), '')
        if own:
            print(out)
        return dict(ran='cargo test --lib verif_replay (scratch copy of the tree under check)', output=line[:600], failed=('FAILED' in out or 'panicked' in out))
    finally:
        if own:
            shutil.rmtree(d, ignore_errors=True)


def run_all_harnesses(timeout=2400):
    """thorough tier: the loop-free full-domain harnesses as a cross-check of the U1 contracts (complete for the instance)."""
    d = scratch_copy()
    try:
        shutil.copy(os.path.join(ROOT, 'kani', 'verif_kani.rs'), os.path.join(d, 'src', 'verif_kani.rs'))
        open(os.path.join(d, 'src', 'lib.rs'), 'a').write('\n#[cfg(kani)]\nmod verif_kani;\n')
        env = dict(os.environ, CARGO_NET_OFFLINE='true', CARGO_TARGET_DIR=TARGET)
        res = {}
        for h in sorted(set(HARNESS.values())):
            p = subprocess.run(['cargo', 'kani', '--harness', h], cwd=d, env=env, capture_output=True, text=True, timeout=timeout)
            out = p.stdout + p.stderr
            res[h] = 'SUCCESSFUL' if 'VERIFICATION:- SUCCESSFUL' in out else ('FAILED: ' + '; '.join(re.findall(r'Failed Checks: (.*)', out)[:3]) if 'VERIFICATION:- FAILED' in out else 'NO-RESULT')
        return res
    finally:
        shutil.rmtree(d, ignore_errors=True)


def run_known_replays(ids):
    """thorough tier: replay recorded known findings against the real code; returns {id: {...}}"""
    res = {}
    d = scratch_copy()
    try:
        env = dict(os.environ, CARGO_NET_OFFLINE='true', CARGO_TARGET_DIR=os.environ.get('VERIF_TEST_TARGET', '/tmp/verif_test_target'))
        tests = {'D6': 'kf_d6', 'D8': 'kf_d8', 'D10': 'kf_d10', 'D11': 'kf_d11', 'D16': 'kf_d16', 'D13': 'kf_d13', 'D12': 'kf_d12'}
        if any(i in tests for i in ids):
            shutil.copy(os.path.join(ROOT, 'replays', 'known', 'known_tests.rs'), os.path.join(d, 'src', 'tests', 'test_known_findings.rs'))
            open(os.path.join(d, 'src', 'tests', 'mod.rs'), 'a').write('\nmod test_known_findings;\n')
            p = subprocess.run('cargo test --offline --lib kf_ 2>&1 | grep -E "^test |test result"', shell=True, cwd=d, env=env, capture_output=True, text=True, timeout=1800)
            for i in ids:
                if i in tests:
                    line = next((l for l in p.stdout.split('\n') if tests[i] in l), '')
                    res[i] = dict(replay='replays/known/known_tests.rs::%s*' % tests[i], reproduced=line.strip().endswith('ok'), output=line.strip())
        if 'D9' in ids:
            p = subprocess.run([os.path.join(ROOT, 'replays', 'known', 'D9', 'run.sh'), d], env=env, capture_output=True, text=True, timeout=1800)
            res['D9'] = dict(replay='replays/known/D9/run.sh (LD_PRELOAD fdatasync failure shim)', reproduced='D9-REPRODUCED' in p.stdout, output=p.stdout.strip()[-600:])
        return res
    finally:
        shutil.rmtree(d, ignore_errors=True)


BOUNDED_FILE_NAME = dict(
    label='bounded', counted_as_proved=False,
    functions=['Config::chunk_file_name', 'Config::parse_chunk_file_name', 'num::format_pad_u64', 'num::format_grouped'],
    why='format!/str/char-iterator code: outside Verus\' reach; the full-domain Kani harness did not terminate (DESIGN 11.3 E23)',
    bound='finite set S of u64 offsets: 0,1,MAX-1,MAX; 2^k-1,2^k,2^k+1 (k<64); 10^k-1,10^k,10^k+1 and d*10^k (d in 1..9, k<20); 200000 values of a fixed LCG shifted '
          'to every magnitude (about 161000 distinct values); 2400 malformed names derived from the first 400 names',
    clauses=['parse_chunk_file_name(chunk_file_name(x)) == Ok(x)', 'name is "r-" + 26 characters + ".wal"', 'x < y ==> name(x) < name(y) as strings (name order == offset order)',
             'a name with a dropped/doubled character or a wrong prefix/suffix is rejected'],
    harness='replays/bounded/file_name_codec.rs, injected as src/tests/test_verif_bounded.rs into a scratch copy of the tree under check; runs the real functions')


def run_bounded_file_name_codec(timeout=1500):
    """C11: bounded stand-in for the file-name codec (labelled bounded, never counted as proved).
    returns dict(status='ok'|'failed'|'not-run', ...)"""
    d = scratch_copy()
    try:
        test = open(os.path.join(ROOT, 'replays', 'bounded', 'file_name_codec.rs')).read()
        open(os.path.join(d, 'src', 'tests', 'test_verif_bounded.rs'), 'w').write(test)
        open(os.path.join(d, 'src', 'tests', 'mod.rs'), 'a').write('\nmod test_verif_bounded;\n')
        env = dict(os.environ, CARGO_NET_OFFLINE='true', CARGO_TARGET_DIR=os.environ.get('VERIF_TEST_TARGET', '/tmp/verif_test_target'))
        p = subprocess.run('cargo test --offline --lib verif_bounded -- --nocapture 2>&1 | tail -40', shell=True, cwd=d, env=env, capture_output=True, text=True, timeout=timeout)
        out = p.stdout
        res = dict(BOUNDED_FILE_NAME)
        ok = next((l for l in out.split('\n') if 'VERIF-BOUNDED-OK' in l), None)
        bad = next((l for l in out.split('\n') if 'VERIF-BOUNDED-FAIL' in l), None)
        if bad:
            res.update(status='failed', output=bad.strip()[:600], test=test)
        elif ok and 'test result: ok. 1 passed' in out:
            res.update(status='ok', output=ok.strip())
        else:
            pan = next((l for l in out.split('\n') if 'panicked' in l), None)
            if pan and 'test_verif_bounded' in out and 'running 1 test' in out:
                res.update(status='failed', output=pan.strip()[:600], test=test)
            else:
                res.update(status='not-run', output=out[-800:])
        return res
    except Exception as e:
        res = dict(BOUNDED_FILE_NAME)
        res.update(status='not-run', output=repr(e)[:400])
        return res
    finally:
        shutil.rmtree(d, ignore_errors=True)
