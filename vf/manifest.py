"""Writes /verif/MANIFEST.json from the claims table below (kept in one place
so the manifest stays valid and in step with what the checks really do)."""
import json
import os

from .gen import ROOT

TRUST = ('Trusted: Verus/Z3/rustc; the extractor and its E-rules (DESIGN 2.1); assumed contracts of std/dependency '
         'functions (listed per run in the evidence); laws assumed of the user Types; usize = 64 bit.')

CLAIMS = {
    'C01': dict(
        text=('Unbounded deductive proof (Verus) that every accepted write is the reference-log step: each RaftLogState op and RaftLogState::apply '
              'against the reference step function written from the property text (whole-state equality), RaftLogStateMachine::apply and '
              'RaftLog::{append_and_apply, save_vote, commit, save_user_data, truncate, purge} against the reference step on state and on the index map '
              '(insert / cut below / cut above, values untouched), cache contents in the no-eviction regime (insert is exactly map insert), chunk rotation '
              'changes nothing of the state machine; all chunk limits symbolic; read(): the index range handed to the iterator is exactly [from, max(from,to)) in index order (defect D5, fixed) and a resident entry is served from the cache with the id stored in the index; '
              'get_log_id/log_state/stat report the fields of the state; the batch append loop applies one append_and_apply per entry in order (rule E7 desugaring). Lemma lemma_c01_refinement (U11, over the contracts only): the reference relation is preserved by every step.'),
        note=TRUST + ' History legality of purge (Raft-legal argument) is a stated precondition of the refinement clauses; update_state is under contract only for a state that keeps `last` (what save_user_data and chunk heads use); an arbitrary state is outside the contracts.',
        technique='Verus function contracts against a reference step function, on extracted code',
        design='5 C01',
    ),
    'C02': dict(
        text=('Unbounded deductive proof (Verus) of the restart path RaftLog::open on extracted code: load_chunk_ids returns exactly the ids of the well-named files of the directory (loop invariant; none skipped, none invented), in offset order; every one of them is loaded (postcondition of open: closed chunk or the reused open chunk); every chunk id is gap-checked (ensure_consecutive_chunks: Err iff prev_end != id) '
              'BEFORE it is opened; every record of every chunk is applied through the same RaftLogStateMachine::apply contract the live path uses, with chunk id and segment (offsets[i], offsets[i+1]-offsets[i]); '
              'the healthy newest chunk is reused for appends iff it was not truncated, otherwise a fresh chunk is created exactly at the previous end with State(current state) as head; '
              'the returned store satisfies the invariants every write operation needs and preserves (Inv_Cache, I7, wal_safe, Inv_WAL: loaded chunks keyed by start, non-empty, abutting). '
              'Live-side premises, checked under this property as well: RaftLog::append_and_apply journals a record only if the reference accepts it (rejected => nothing changed, nothing buffered) and buffers exactly enc(rec) for an accepted one; '
              'the flush worker batches every Write it receives and writes the batch to the newest file in request order. '
              'Lemma over the contracts (unit U11, no code): for a journal older ++ [State(h)] ++ newer whose chunk-head record carries the state at rotation (h == fold(init, older), proved under C11), replaying from that head from ANY starting state yields fold(init, whole journal) — so deleting older chunks and restarting reproduces the live state.  What is NOT decided: the journal-on-disk == journal-written link itself (C04+C11+file-system semantics) and the completeness half of the codec.'),
        note=TRUST + ' ENVIRONMENT ASSUMPTIONS inside the replay loop (two explicit `assume`s, listed in the evidence): cached bytes stay below 2^64; a State record other than the very first record replayed repeats the `last` in force when it was written (chunk heads / save_user_data). Acceptance of a replayed record is NOT assumed (a refused record makes open return the error), nor index magnitudes (law of the user types), nor legality of the first record (store provably empty). RaftLogWAL::new is under contract (rule E24; only the thread start itself is assumed); RaftLog::load_chunk_ids is under contract over abstract file names (rule E23: read_dir/OsString/str parsing replaced by stand-ins; the directory listing at open time and the parser are uninterpreted, sort() is an assumed sorted permutation).',
        technique='Verus loop invariants over the chunk-loading loop + shared apply contract, on extracted code',
        design='5 C02',
    ),
    'C04': dict(
        text=('Unbounded deductive proof (Verus) of the flush worker against a ghost effect trace (Write/Sync/SetEvictable/Ack/Unlink events spliced mechanically after every effectful call, rule E9): '
              'history invariant "every successful Ack event is preceded by a state with no file written-and-not-synced" (acks_sound), "every file holding unsynced data is still tracked" (covered), '
              'established by FlushWorker::new (empty trace, exactly the open chunk file tracked), preserved by sync_all_files (also at its error exit: defect D7, fixed), handle_non_flush_request and every iteration of run_inner for an ARBITRARY next request and batch split; '
              'sender side: send_flush hands over exactly the bytes buffered since the last hand-over with sync=true and the callback, rotation queues the old tail as a synced Write before AppendFile. '
              'every request that is not a Write (AppendFile, RemoveChunks, GetFlushStat), whether received first or deferred behind a batch, is handed to its handler before the next request is taken (ghost counters, loop invariant); a failed write is never skipped over (invariant of the batch loop) and a short write whose byte count is ignored is a failed obligation; every batch produces exactly one Ack event per request that carries a callback, in request order (ack_ids(trace suffix) == cb_ids(batch)); at-most-once per callback is also Rust move semantics (Callback::send consumes self).'),
        note=TRUST + ' Assumed: write_all/sync_data semantics (a successful fdatasync makes all earlier writes to that file durable), FIFO channel, message invariant "every Write has sync == true" (proved on the sender in U5, assumed at recv), rule E7 desugaring of try_iter().take(n) and iter().any(). Liveness (every sent request is eventually processed) is not decided.',
        technique='Verus history invariant over a ghost effect trace, on extracted code',
        design='5 C04',
    ),
    'C05': dict(
        text=('Partial, as stated in DESIGN: only the clause "recovery never panics" is decided. Unbounded deductive proof (Verus) of every safety obligation (overflow, bounds, unwrap, std preconditions) in RaftLog::open, Chunk::open, '
              'handle_record_error, verify_trailing_zeros, RecordIterator::next, OffsetReader::read, reopen_last_closed, ensure_consecutive_chunks and the chunk getters they call, for EVERY file content (ghost byte sequence), '
              'every read_buffer_size and both truncate settings. One obligation is red and recorded as KNOWN FINDING D10: a loaded chunk with no complete record reaches Chunk::last_segment (panic). '
              'Rotation order (new chunk created and its head written on the caller thread before the old tail is queued) is proved under C11. Removal order (purge schedules the oldest chunks first; the worker unlinks in list order and a failure leaves a prefix removed, i.e. a gap-free suffix on disk) is checked under this property as well. That open returns Ok after every crash is NOT decided (crash points x schedules).'),
        note=TRUST + ' Magnitudes: chunk files < 2^62 bytes, file-name offsets < 2^62. Replayed records are assumed accepted (see C02).',
        technique='Verus safety obligations over a ghost file content, on extracted code',
        design='5 C05',
    ),
    'C06': dict(
        text=('Unbounded deductive proof (Verus): RaftLog::append_and_apply has the postcondition "record not accepted by the reference => Err and *final(self) == *old(self)" '
              '(whole struct: state, index, cache, journal buffer, offsets, closed chunks, sent messages, removal list), inherited by save_vote, commit, truncate '
              '(LogIndexNotFound precedes any mutation); accepted records are Ok at the state machine.  On the pinned tree this failed (defects D1-D3), repaired by a fix: commit.'),
        note=TRUST + ' KNOWN FINDING D16: the batch append applies the valid prefix before failing (twin obligation on RaftLog::append, desugared by rule E7). "after flush and restart" relies on C02.',
        technique='Verus frame postcondition (Err => nothing changed) on extracted code',
        design='5 C06',
    ),
    'C07': dict(
        text=('Unbounded deductive proof (Verus) of the cache-pinning half of the property: no PayloadCache method (insert, try_evict, evict_first, drain_evictable, purge_upto) ever drops an entry above the evictable boundary, '
              'for an arbitrary boundary at entry (rely condition standing in for the worker thread); the new entry of an append stays resident if it is above the boundary; carried through RaftLogStateMachine::apply and RaftLog::append_and_apply; '
              'worker side: the boundary is raised (SetEvictable event) only in a state where every file other than the newest tracked one is clean (evictable_sound, history invariant; base case FlushWorker::new, carried by run/run_inner); the worker is started (RaftLogWAL::new, RaftLog::open) tracking the open chunk file with the last id of the newest CLOSED chunk as its first boundary; while loading, the boundary handed to the cache before chunk i is exactly the last id after chunks < i (loop invariant of open); and every rotation hands it the state.last of the chunk being closed. '
              'read__entry / load_log_payload: an evicted entry is read from the closed chunk its index entry names, an unknown chunk is reported as NotFound (never a panic, given that index entries point at Append records on disk). KNOWN FINDING D8: an accepted TruncateAfter can leave the evictable boundary above `last` (the clause is proved for every other record kind). Not decided: the chain "every non-resident live entry lies in a closed chunk" and the concurrent-readers clause.'),
        note=TRUST + ' Lock sequentialised (E6). The concurrent-readers clause is Rust Sync typing + pread and has no contract.',
        technique='Verus pinning postconditions + history invariant, on extracted code',
        design='5 C07',
    ),
    'C08': dict(
        text=('Unbounded deductive proof (Verus): RaftLog::flush sends the synced Write request first and RemoveChunks second and empties the removal list; the worker unlinks paths in list order; '
              'the obligation "an Unlink event happens only in a state with nothing unsynced" (unlinks_sound) is proved for handle_non_flush_request given its precondition and is a KNOWN FINDING (D9) at the two call sites in run_inner, '
              'where the request is executed whatever the result of the preceding sync. RaftLog::purge (loop invariant): the chunks scheduled for removal are exactly the maximal prefix of the oldest closed chunks whose recorded last log id is at or below the purge point, oldest first, the kept chunks are untouched and still form a gap-free suffix. '
              'KNOWN FINDING D13 (leak clause): "the oldest remaining closed chunk still holds a live entry" does not hold, because the selection uses the last id recorded when the chunk was closed.'),
        note=TRUST + ' Assumed: remove_file/fdatasync semantics, FIFO channel.',
        technique='Verus history invariant over a ghost effect trace + sent-message order, on extracted code',
        design='5 C08',
    ),
    'C09': dict(
        text=('Unbounded deductive proof (Verus): decision table of handle_record_error (truncate only if enabled AND (UnexpectedEof OR tail all zeros); otherwise the error is returned; never Ok(false)); '
              'Chunk::open stops at the first error and, when it did not truncate, every byte of the file was consumed by successful decodes; RecordIterator::next yields nothing after an error and stops exactly at the file size; '
              'WALRecord::decode returns Ok only for bytes whose checksum matches (soundness: consumed bytes == enc(record)), unknown tag/version/checksum mismatch are InvalidData (an unknown RaftLogState version must not be reported as UnexpectedEof, which recovery would treat as an incomplete tail); the stored checksum is read and compared before a record is accepted; ensure_consecutive_chunks: Err iff gap, called for every chunk. '
              'KNOWN FINDING D11: a non-newest chunk may be truncated before the refused open. KNOWN FINDING D12: the truncated tail is not guaranteed to be an incomplete record or zeros (a corrupted length prefix looks like an incomplete tail; inherent to the format).'),
        note=TRUST + ' Assumed: CRC-32 detects the alterations the property ranges over (crc is uninterpreted); codeq/byteorder/user codec contracts.',
        technique='Verus decision-table and loop contracts over a ghost file content, on extracted code',
        design='5 C09',
    ),
    'C10': dict(
        text=('Unbounded deductive proof (Verus) over an arbitrary ghost file content F: Chunk::open returns records rs and offsets with F.take(n) == enc(r1)..enc(rk), offsets[k] == id + |enc(r1..rk)|, '
              'truncated == None => n == |F| and no file-system event; truncated == Some(|F|) => truncation enabled and exactly [SetLen(n), SyncAll] happened; truncation disabled => no SetLen/SyncAll event on any exit; '
              'verify_trailing_zeros answers exactly "all bytes from start are zero" (loop invariant, short reads, termination); handle_record_error: UnexpectedEof + enabled => truncate; disabled => Err; '
              'RaftLog::open creates the fresh chunk exactly at the last complete record of a truncated newest chunk. '
              'Maximality: when Chunk::open truncates at n, the parse function fails on the bytes from n on (cut_is_maximal), hence no encoded record starts there (lemma_c10_no_record_where_parsing_fails, contrapositive of the round trip): the kept prefix is the longest run of complete valid records.'),
        note=TRUST + ' File content is the content at open time (recovery reads before it truncates); pread/BufReader contracts assumed; rule E7 desugars the two for-loops.',
        technique='Verus loop invariants over a ghost file content + ghost event trace, on extracted code',
        design='5 C10',
    ),
    'C11': dict(
        text=('Unbounded deductive proof (Verus) of the journal arithmetic: append_record buffers exactly enc(rec) and pushes end+|enc(rec)|; the segment returned by a write is '
              '(old end, |enc(rec)|) also when the write triggers a rotation (defect D14, fixed); a chunk is closed iff records >= max_records or size >= max_size right after the write; '
              'the closed chunk is keyed by its start, the new chunk starts at the old end, its head is State(state at rotation), its file is created under chunk_path(offset) and the head is written; '
              'the old tail is queued as a synced Write before AppendFile; Inv_WAL (chunks abut) is preserved; on_disk_size == end - oldest start; the batch append returns the segment of its last record (also across a rotation).'),
        note=TRUST + ' File effects are uninterpreted events of assumed std contracts. The file-name codec (chunk_file_name/parse_chunk_file_name/num::format_pad_u64: format!/str, outside the reach of Verus, full-domain Kani did not terminate) is NOT under contract and NOT proved: a BOUNDED stand-in runs the real functions on a stated finite set of about 161000 u64 offsets (all powers of 2 and 10 with neighbours, every digit at every position, 200000 LCG values over all magnitudes) for round trip, fixed width, name order == offset order and rejection of 2400 malformed names (replays/bounded/file_name_codec.rs; reported in the evidence under bounded_stand_ins, never counted among the discharged obligations). Worker-side placement of writes is part of C04 (unit U7).',
        technique='Verus function contracts over offset/segment arithmetic and sent-message ghost history, on extracted code',
        design='5 C11',
    ),
    'C12': dict(
        text=('Unbounded deductive proof (Verus) on the four codec functions extracted from the working tree, generic in the reader/writer and in T: Types: WALRecord::encode and RaftLogState::encode append exactly enc(self) '
              '(tag, fields in declaration order, checksum of tag+fields / version byte 1 and the five optional fields) and report its length; WALRecord::decode and RaftLogState::decode are sound: Ok(v) => the bytes consumed are exactly enc(v), '
              'nothing beyond is consumed, the reader position advances by |enc(v)|; no arithmetic overflow or panic in any of them (decode of arbitrary bytes is total). '
              'Completeness, function-against-spec-function: both decoders ARE the parse function `dec` of the remaining bytes (Ok iff dec is Some, and then they return dec\'s value and consume dec\'s length), '
              'dec is written from the format (tag, fields of that tag, checksum over tag+fields; version byte 1 and five optional fields), and the round-trip law dec(enc(v) ++ rest) == Some((v, |enc(v)|)) is PROVED for WALRecord, RaftLogState, u8 and Option<T> '
              '(lemma_c12_round_trip), so decode(encode(v)) == v consuming exactly the bytes written, for every v and whatever follows.'),
        note=TRUST + ' Assumed dependency contracts: codeq u8/Option codecs and ChecksumReader/Writer, byteorder read_/write_u32, the user codecs of LogId/Vote/Payload/UserData (sound; their own round-trip law dec(enc(x) ++ rest) == Some(x) is ASSUMED; lengths < 2^56); I/O errors of the underlying reader are not modelled in the codec contracts (byteorder/codeq/user codecs fail only for what the bytes are); crc is an uninterpreted function of the bytes; readers/writers by-value with prophecy variables.',
        technique='Verus contracts against a spec encoding function, prophecy-based reader/writer stand-ins, on extracted code',
        design='5 C12',
    ),
    'C13': dict(
        text=('Unbounded deductive proof (Verus) of the code side of single ownership: FileLock::new returns Ok only after try_lock_exclusive succeeded on the LOCK file of that directory (lock_held), and the handle is stored in the owner; '
              'RaftLog::open and Dump::new call it first: every later directory operation in open (directory listing, Chunk::open incl. set_len, chunk creation) has the precondition lock_held(dir), a fact that only exists after the successful lock call, '
              'so the lock is provably acquired before anything is read, truncated or created, and a failed lock returns Err before any of them.'),
        note=TRUST + ' Assumed: flock gives mutual exclusion across threads and processes and is released on unlock/close (kernel). Drop for FileLock is under contract: it only unlocks its own handle; a file removal there would need lock_held(dir), which drop cannot establish.',
        technique='Verus happens-before via postcondition-established facts required by later calls, on extracted code',
        design='5 C13',
    ),
    'C15': dict(
        text=('Unbounded deductive proof (Verus) on the PayloadCache methods extracted from the working tree on every run: '
              'representation invariant size == sum of resident payload sizes on every method, item count == |map|, '
              '"over a limit => every resident entry is above the evictable boundary" as postcondition of insert/try_evict, '
              '"drained => nothing at or below the boundary" as postcondition of drain_evictable; the invariant is carried through RaftLogStateMachine::apply and every RaftLog write op '
              '(an accepted append inserts a fresh key: invariant I7); accounting is stated as "slack" (counter minus resident sum): every cache method leaves the slack unchanged UNCONDITIONALLY, insert adds exactly the size of a replaced duplicate; generic in T: Types, for all cache limits and all boundaries.'),
        note=TRUST + ' The cache RwLock is sequentialised (rule E6): each method is proved for an arbitrary boundary at entry, which is the only field the worker thread writes. RaftLog::stat() is under contract (reported count/size/limits/boundary are the cache fields; the per-closed-chunk list is an assumed iterator chain). wait_worker_idle is under contract (it returns only after the shared done counter was observed at or above the number of requests sent; that the counter means "finished" is the assumed cross-thread meaning), drain_cache_evictable leaves nothing at or below the boundary.',
        technique='Verus function contracts + data-structure invariant on extracted code',
        design='5 C15',
    ),
    'C16': dict(
        text=('Unbounded deductive proof (Verus) of every generated safety obligation (arithmetic overflow/underflow, index bounds, unwrap, std preconditions, reachable panic!) in the functions reachable from '
              'save_vote, commit, save_user_data, truncate, purge, flush, on_disk_size, log_state, under only the unconditionally preserved invariants (Inv_Cache, I7, wal_safe) and stated magnitude assumptions; '
              'no precondition on index/argument values except the known finding D6 (index u64::MAX).'),
        note=TRUST + ' Magnitudes assumed: journal bytes, requests sent, cached bytes < 2^62, one encoded record / one payload < 2^61. read(), stat(), drain_cache_evictable and the batch append loop are under the same safety contracts (for-loops desugared by rule E7; iterator adapter chains in read/stat are assumed, see DESIGN).',
        technique='Verus safety obligations on extracted code under unconditional invariants',
        design='5 C16',
    ),
}

NOT_APPLICABLE = {
    'C03': 'quantifies over crash points inside two threads\' system-call sequences and a crash-image model; no function contract ranges over "the program stopped here" (premises are proved under C04/C10/C11/C12, the composition is on paper only, DESIGN 5 C03)',
    'C14': 'thread lifetime and scheduling of a detached worker versus a later instance; there is no Drop impl or function to attach a contract to, Verus has no model of detached threads and Kani has no threads (DESIGN 5 C14)',
}

PENDING = 'contracts for this property are not discharged yet in this revision of /verif (units under construction); not claimed until its check runs green'

ALL = ['C%02d' % i for i in range(1, 17)]


def build():
    checks = []
    for p in ALL:
        if p not in CLAIMS:
            continue
        c = CLAIMS[p]
        checks.append(dict(
            property_id=p,
            quick_cmd='./check %s --tier quick' % p,
            thorough_cmd='./check %s --tier thorough' % p,
            evidence_file='/verif/evidence/%s.json' % p,
            replay_cmd_template='./replay {path}',
            engine='verus',
            level_claimed=dict(category='proof', text=c['text'], design_ref='DESIGN.md section ' + c['design']),
            level_note=c['note'],
            technique=c['technique'],
        ))
    na = []
    for p in ALL:
        if p in CLAIMS:
            continue
        na.append(dict(property_id=p, reason=NOT_APPLICABLE.get(p, PENDING)))
    m = dict(
        version=1,
        setup_cmd='sh -c "verus --version >/dev/null && python3 -c \'import vf.check, vf.gen, vf.run\'"',
        hooks=dict(
            guard='raft_log_verif',
            enable='none needed: Verus works on text extracted from /repo on every run; Kani harnesses and replay tests are injected into a scratch copy (RUSTFLAGS="--cfg raft_log_verif" is reserved and unused)',
            baseline_off_cmd='cd /repo && cargo test --workspace --no-fail-fast --offline',
            source_commits=[],
            add_only=True,
        ),
        engines=[
            dict(name='verus', path='/verif/vf', serves_properties=sorted(CLAIMS), kind_free_text='contract-based deductive verification (Verus 0.2026.09.13 / Z3) of functions extracted verbatim from /repo on every run'),
        ],
        checks=checks,
        not_applicable=na,
        notes='See DESIGN.md. exit 0 = all obligations of the property discharged; exit 1 = VIOLATION line (failed obligation, replay file under /verif/replays); exit 2 = undecided (lost anchor / construct outside the verifier / resource limit), never an alarm.',
    )
    json.dump(m, open(os.path.join(ROOT, 'MANIFEST.json'), 'w'), indent=1)
    return m


if __name__ == '__main__':
    build()
    print('MANIFEST.json written')
