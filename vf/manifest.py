"""Writes /verif/MANIFEST.json from the claims table below (kept in one place
so the manifest stays valid and in step with what the checks really do)."""
import json
import os

from .gen import ROOT

TRUST = ('Trusted: Verus/Z3/rustc; the extractor and its E-rules (DESIGN 2.1); assumed contracts of std/dependency '
         'functions (listed per run in the evidence); laws assumed of the user Types; usize = 64 bit.')

CLAIMS = {
    'C15': dict(
        text=('Unbounded deductive proof (Verus) on the PayloadCache methods extracted from the working tree on every run: '
              'representation invariant size == sum of resident payload sizes on every method, item count == |map|, '
              '"over a limit => every resident entry is above the evictable boundary" as postcondition of insert/try_evict, '
              '"drained => nothing at or below the boundary" as postcondition of drain_evictable; generic in T: Types, for all cache limits and all boundaries.'),
        note=TRUST + ' The cache RwLock is sequentialised (rule E6): each method is proved for an arbitrary boundary at entry, which is the only field the worker thread writes. stat() iterator glue is not under contract.',
        technique='Verus function contracts + data-structure invariant on extracted code',
        design='5 C15',
    ),
}

NOT_APPLICABLE = {
    'C03': 'quantifies over crash points inside two threads\' system-call sequences and a crash-image model; no function contract ranges over "the program stopped here" (premises are proved under C04/C10/C11/C12, the composition is on paper only, DESIGN 5 C03)',
    'C14': 'thread lifetime and scheduling of a detached worker versus a later instance; there is no Drop impl or function to attach a contract to, Verus has no model of detached threads and Kani has no threads (DESIGN 5 C14)',
}

PENDING = 'contracts for this property are not discharged yet in this revision of /verif (units under construction); not claimed until its check runs green'

ALL = ['C%02d' % i for i in range(1, 17)]


def build():
    checks = []
    for p in ALL:
        if p not in CLAIMS:
            continue
        c = CLAIMS[p]
        checks.append(dict(
            property_id=p,
            quick_cmd='./check %s --tier quick' % p,
            thorough_cmd='./check %s --tier thorough' % p,
            evidence_file='/verif/evidence/%s.json' % p,
            replay_cmd_template='./replay {path}',
            engine='verus',
            level_claimed=dict(category='proof', text=c['text'], design_ref='DESIGN.md section ' + c['design']),
            level_note=c['note'],
            technique=c['technique'],
        ))
    na = []
    for p in ALL:
        if p in CLAIMS:
            continue
        na.append(dict(property_id=p, reason=NOT_APPLICABLE.get(p, PENDING)))
    m = dict(
        version=1,
        setup_cmd='sh -c "verus --version >/dev/null && python3 -c \'import vf.check, vf.gen, vf.run\'"',
        hooks=dict(
            guard='raft_log_verif',
            enable='none needed: Verus works on text extracted from /repo on every run; Kani harnesses and replay tests are injected into a scratch copy (RUSTFLAGS="--cfg raft_log_verif" is reserved and unused)',
            baseline_off_cmd='cd /repo && cargo test --workspace --no-fail-fast --offline',
            source_commits=[],
            add_only=True,
        ),
        engines=[
            dict(name='verus', path='/verif/vf', serves_properties=sorted(CLAIMS), kind_free_text='contract-based deductive verification (Verus 0.2026.09.13 / Z3) of functions extracted verbatim from /repo on every run'),
        ],
        checks=checks,
        not_applicable=na,
        notes='See DESIGN.md. exit 0 = all obligations of the property discharged; exit 1 = VIOLATION line (failed obligation, replay file under /verif/replays); exit 2 = undecided (lost anchor / construct outside the verifier / resource limit), never an alarm.',
    )
    json.dump(m, open(os.path.join(ROOT, 'MANIFEST.json'), 'w'), indent=1)
    return m


if __name__ == '__main__':
    build()
    print('MANIFEST.json written')
