"""./replay <file.json>: show a stored violation and re-run its failing input (if any) against /repo."""
import json
import os
import subprocess
import sys


def main():
    d = json.load(open(sys.argv[1]))
    print('property   :', d.get('property'))
    print('obligation :', d.get('obligation'))
    print('function   :', d.get('function'), d.get('function_source'))
    print('clause     :', d.get('clause'))
    print('verifier   :', d.get('verifier_message'))
    for o in d.get('verifier_output', []):
        print(o)
    if d.get('expansion'):
        print(d['expansion'])
    fi = d.get('failing_input')
    if not fi:
        print('no-failing-input-found: the verifier gives no counterexample for this obligation')
        return 0
    print('failing input:', json.dumps(fi.get('values'), indent=1))
    if fi.get('test'):
        from . import kani
        return kani.replay_test(fi)
    return 0


if __name__ == '__main__':
    sys.exit(main())
