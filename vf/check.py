"""./check <property> [--tier quick|thorough]  — decide one property.

exit 0  every obligation tagged with the property is discharged (known
        findings listed in known_findings.json are printed as KNOWN-FINDING)
exit 1  VIOLATION property=<id> replay=<path>  (an obligation failed)
exit 2  undecided (lost anchor, construct outside the verifier's reach,
        resource limit) — never an alarm
"""
import argparse
import concurrent.futures as cf
import glob
import hashlib
import json
import os
import re
import shutil
import subprocess
import sys
import tempfile
import time

from .gen import ROOT, REPO
from . import run as R

UNITS_DIR = os.path.join(ROOT, 'units')
# evidence under /verif/evidence is only ever written for /repo itself; runs against a scratch copy (VERIF_REPO) write elsewhere
_SCRATCH = os.environ.get('VERIF_REPO') not in (None, '', '/repo')
EVID_DIR = os.environ.get('VERIF_EVIDENCE_DIR') or (os.path.join('/tmp/verif_scratch', 'evidence') if _SCRATCH else os.path.join(ROOT, 'evidence'))
REPLAY_DIR = os.path.join(os.environ.get('VERIF_EVIDENCE_DIR') or ('/tmp/verif_scratch' if _SCRATCH else ROOT), 'replays')
KNOWN_FILE = os.path.join(ROOT, 'known_findings.json')

FIXED_TRUSTED = [
    'Verus 0.2026.09.13 (rust_verify, VIR/AIR encoders) and Z3 as its SMT back end; rustc 1.98.1 front end',
    'the extractor /verif/vf (brace matching, E-rules of DESIGN.md 2.1) — the verified text is the working-tree text modulo those rules',
    'assumed contracts of std / dependency functions (every assume_specification / external_body in the generated file, listed under assumptions)',
    'laws assumed of the user-supplied Types (total order on LogId, partial order on Vote, clone returns an equal value, log_index/payload_size are functions)',
    'usize is 64 bit (global size_of usize == 8)',
]


def unit_files():
    return sorted(glob.glob(os.path.join(UNITS_DIR, '*.vt')))


def unit_text_with_includes(path, seen=None):
    seen = seen or set()
    txt = open(path).read()
    out = [txt]
    for mt in re.finditer(r'(?m)^\s*//@include\s+(\S+)', txt):
        p = os.path.join(ROOT, mt.group(1))
        if p not in seen:
            seen.add(p)
            out.append(unit_text_with_includes(p, seen))
    return '\n'.join(out)


def units_for(prop):
    res = []
    for u in unit_files():
        txt = open(u).read()   # the unit's own contracts; prelude items are proved wherever they are included
        spec_lines = [l for l in txt.split('\n') if re.match(r'\s*(props|safety)\s*:', l) or re.match(r'\s*\[[A-Z0-9, ]+', l) or l.strip().startswith('//@lemma')]
        if any(re.search(r'\b' + prop + r'\b', l) for l in spec_lines):
            res.append(u)
    # a contract assumed via //@use must be discharged in its home unit in the same run
    changed = True
    while changed:
        changed = False
        for u in list(res):
            for mt in re.finditer(r'(?m)^\s*//@use\s+(\S+)', unit_text_with_includes(u)):
                h = os.path.join(UNITS_DIR, mt.group(1))
                if h not in res:
                    res.append(h)
                    changed = True
    return sorted(res)


def load_known():
    if not os.path.exists(KNOWN_FILE):
        return []
    return json.load(open(KNOWN_FILE)).get('findings', [])


def safe(s):
    return re.sub(r'[^A-Za-z0-9_.@-]+', '_', s)[:150]


_CACHE_LOCKS = {}


def _cached(kind, unit, seed, fn):
    """The result of verifying one unit against one tree does not depend on the property asked about (the property only selects which
    obligations count).  tools/seed_recheck.py asks all properties about the same patched tree, so it sets VERIF_UNIT_CACHE to a
    per-tree directory and every unit is verified once.  Never set for the registered commands."""
    d = os.environ.get('VERIF_UNIT_CACHE')
    if not d:
        return fn()
    import fcntl
    import pickle
    os.makedirs(d, exist_ok=True)
    path = os.path.join(d, '%s-%s-%s.pkl' % (kind, os.path.basename(unit), seed or 0))
    with open(path + '.lock', 'w') as lk:
        fcntl.flock(lk, fcntl.LOCK_EX)       # another property's check may be computing the same unit right now
        if os.path.exists(path):
            return pickle.load(open(path, 'rb'))
        r = fn()
        try:
            pickle.dump(r, open(path + '.tmp', 'wb'))
            os.replace(path + '.tmp', path)
        except Exception:
            pass
        return r


def decide(prop, tier='quick', seed=0, units=None, jobs=8, quiet=False):
    t0 = time.time()
    units = units or units_for(prop)
    if not units:
        print('no unit carries obligations for %s' % prop)
        return 2
    results = []
    with cf.ThreadPoolExecutor(max_workers=jobs) as ex:
        os.makedirs(os.path.join(ROOT, 'gen'), exist_ok=True)
        gen_dir = tempfile.mkdtemp(prefix='%s-%s-' % (prop, tier), dir=os.path.join(ROOT, 'gen'))
        futs = [ex.submit(_cached, 'unit', u, seed, lambda u=u: R.run_unit(u, gen_dir, None, seed or None)) for u in units]
        rfuts = [ex.submit(_cached, 'reach', u, seed, lambda u=u: R.run_reach(u, gen_dir)) for u in units]
        for f in futs:
            results.append(f.result())
        reach = [f.result() for f in rfuts]
    known = [k for k in load_known() if k.get('status', 'known') == 'known']
    known_ids = {k['id']: k for k in known if prop in k.get('properties', [k.get('property')])}
    violations, known_hits, undecided = [], [], []
    fn_list, n_obl, n_failed, samples = [], 0, 0, []
    by_kind = {}
    assumptions, rules = [], {}
    smt_ms = 0
    per_fn_time = {}
    for r in results:
        if r.status == 'undecided':
            undecided.append('%s: %s' % (r.unit, r.reason))
        for f in r.fns:
            has_known_twin_here = bool(set(getattr(f.get('fnspec'), 'known', {}) or {}) & set(known_ids))   # a known finding of THIS property lives in a twin of f
            if f.get('excluded') and not f['known'] and (prop in f['props'] or prop in f['safety'] or any(prop in c['tags'] for c in f['clauses']) or has_known_twin_here):
                why = '; '.join([m for (m, q) in getattr(r, 'hard_first', []) if q == f['qual']] + [l for l in getattr(r, 'lost', []) if l.startswith(f['qual'] + ':')])
                undecided.append('%s: %s is outside the verifier\'s reach in its current shape (%s)' % (r.unit, f['qual'], why[:300]))
        for a in r.assumptions:
            if a not in assumptions:
                assumptions.append(a)
        for k, v in r.rules_used.items():
            rules[k] = rules.get(k, 0) + v
        smt_ms += getattr(r, 'smt_ms', 0)
        for f in r.fns:
            relevant = prop in f['props'] or prop in f['safety'] or any(prop in c['tags'] for c in f['clauses'])
            if not relevant:
                continue
            key = (f['emit_name'] if not f['qual'].count('::') else f['qual'].rsplit('::', 1)[0] + '::' + f['emit_name'])
            obl = r.obligations.get(key, {})
            if f['known'] or f['mode'] == 'external_body' or f.get('excluded'):
                continue
            if any(x['function'] == f['qual'] for x in fn_list):
                continue   # prelude items (e.g. Types::next_log_index) are re-proved in every unit; count once
            n = sum(obl.values())
            n_obl += n
            for k, v in obl.items():
                by_kind[k] = by_kind.get(k, 0) + v
            t = r.times.get(key, {})
            fn_list.append(dict(function=f['qual'], unit=r.unit, path=f['src'], lines=f['src_lines'], mode=f['mode'],
                                sha256=next((i['sha256'] for i in r.items if i['name'] == f['qual'] and i['kind'] == 'fn'), None),
                                obligations=n, solver_ms=t.get('ms'), rlimit=t.get('rlimit'), verified=t.get('ok'),
                                tagged_clauses=[c['id'] for c in f['clauses'] if prop in c['tags'] and not c['known']]))
            for c in f['clauses']:
                if prop in c['tags'] and not c['known'] and len(samples) < 6 and c['kind'] == 'ensures':
                    samples.append(dict(obligation=c['id'], function=f['qual'], clause=c['text']))
        for fl in r.failures:
            if prop not in fl.props and any(x['function'] == fl.fn and x['unit'] == r.unit for x in fn_list):
                n_obl -= 1      # a failed obligation of this function that is tagged for another property only: not ours to count
            if prop in fl.props:
                # a main-variant obligation listed as a known finding for this property (matched by obligation id, never by property alone)
                hit = None
                for k in known_ids.values():
                    if k.get('obligation_match') and re.search(k['obligation_match'], fl.oid):
                        hit = k
                if hit is not None:
                    known_hits.append((r, fl, hit))
                else:
                    violations.append((r, fl))
        main_oids = set(fl.oid for fl in r.failures)
        for fl in r.known_failures:
            if prop not in fl.props or fl.oid in main_oids:
                continue   # failures a twin shares with the main variant are the main variant's
            kid = fl.clause_known or fl.known
            if kid in known_ids:
                known_hits.append((r, fl, known_ids[kid]))
            else:
                violations.append((r, fl))
    reach_checked = sum(r_[0] for r_ in reach)
    reach_vacuous = []
    for u, (n_, vac, note) in zip(units, reach):
        for q in vac:
            reach_vacuous.append('%s: %s' % (os.path.basename(u), q))
        if note and n_ == 0:
            reach_vacuous.append('%s: vacuity guard could not run (%s)' % (os.path.basename(u), note))
    for v in reach_vacuous:
        undecided.append('vacuity guard: contradictory or unchecked preconditions: ' + v)
    all_known = [k for k in load_known() if k.get('status', 'known') == 'known' and k.get('obligation_match')]
    def unit_status(r_):
        if r_.status == 'failed' and all(any(re.search(k['obligation_match'], fl.oid) for k in all_known) for fl in r_.failures):
            return 'ok+known-findings'
        return r_.status
    n_failed = len(violations)
    rc = 0
    lines = []
    os.makedirs(os.path.join(REPLAY_DIR, prop), exist_ok=True)
    seen = set()
    for r, fl in violations:
        if fl.oid in seen:
            continue
        seen.add(fl.oid)
        path = os.path.join(REPLAY_DIR, prop, safe(fl.oid) + '.json')
        payload = dict(property=prop, obligation=fl.oid, function=fl.fn, unit=r.unit, kind=fl.kind,
                       clause=fl.clause, verifier_message=fl.message, code=fl.code, source=fl.srcloc,
                       function_source=dict(path=fl.src, lines=fl.src_lines),
                       verifier_output=[e for e in r.raw_errors if fl.code[:40] in e or (fl.clause and fl.clause[:40] in e)][:4] or r.raw_errors[:6],
                       expansion=fl.expansion, verus_cmd=r.cmd, generated_file=r.gen_path,
                       failing_input=None, note=r.reason,
                       passed_on_unchanged_tree=('yes: this is a named contract clause / marker; every named obligation is discharged on the unchanged tree (checked by every run there)'
                                                 if (fl.kind in ('post', 'inv') or '@ghost' in fl.oid or '.pre[' in fl.oid) else
                                                 'a generated safety obligation at this source location; all safety obligations of this function are discharged on the unchanged tree'))
        ce = None if os.environ.get('VERIF_NO_KANI') else try_counterexample(prop, fl)
        suffix = ''
        if ce:
            payload['failing_input'] = ce
        else:
            suffix = ' no-failing-input-found'
        try:
            keep = os.path.join(REPLAY_DIR, prop, safe(fl.oid) + '.generated.rs')
            shutil.copy(r.gen_path, keep)
            payload['generated_file'] = keep
        except Exception:
            pass
        json.dump(payload, open(path, 'w'), indent=1)
        lines.append('VIOLATION property=%s replay=%s%s' % (prop, path, suffix))
        rc = 1
    kseen_obl = set(fl.oid for _r, fl, _k in known_hits if not fl.known)   # red main-variant obligations that are recorded known findings
    kseen = set()
    for r, fl, k in known_hits:
        if k['id'] in kseen:
            continue
        kseen.add(k['id'])
        lines.append('KNOWN-FINDING: property=%s %s: %s [obligation %s]' % (prop, k['id'], k['what'], fl.oid))
    if rc == 0 and undecided:
        rc = 2
        for u in undecided:
            lines.append('UNDECIDED property=%s %s' % (prop, u))
    # bounded stand-in (C11 only; labelled bounded, never counted among the discharged obligations): the file-name codec on the real code
    bounded = {}
    if prop == 'C11' and not os.environ.get('VERIF_NO_BOUNDED'):
        from . import kani as KB
        b = KB.run_bounded_file_name_codec()
        bounded['bounded_stand_ins'] = [{k: v for k, v in b.items() if k != 'test'}]
        if b['status'] == 'failed':
            oid = 'C11.bounded.file_name_codec'
            path = os.path.join(REPLAY_DIR, prop, safe(oid) + '.json')
            json.dump(dict(property=prop, obligation=oid, function='Config::chunk_file_name / Config::parse_chunk_file_name', kind='bounded-check',
                           clause=b['output'], verifier_message='bounded stand-in failed on the real code (not a Verus obligation)', verifier_output=[b['output']],
                           failing_input=dict(values=b['output'], test=b.get('test')), note='replay: the stored test, injected into a scratch copy of /repo, prints the failing offset/name'),
                      open(path, 'w'), indent=1)
            lines.insert(0, 'VIOLATION property=%s replay=%s' % (prop, path))
            seen.add(oid)
            rc = 1
        elif b['status'] == 'not-run':
            lines.append('NOTE property=%s bounded stand-in for the file-name codec did not run (verdict unaffected): %s' % (prop, b['output'][-200:].replace(chr(10), ' ')))
    thorough = {}
    if tier == 'thorough':
        # (a) proof stability: the same units under two more Z3 seeds
        stab = []
        for sd in (int(seed or 0) + 101, int(seed or 0) + 202):
            with cf.ThreadPoolExecutor(max_workers=jobs) as ex:
                rs = list(ex.map(lambda u: R.run_unit(u, gen_dir, None, sd), units))
            stab.append(dict(seed=sd, units={r_.unit: r_.status for r_ in rs},
                             failed_obligations=sorted(set(fl.oid for r_ in rs for fl in r_.failures if prop in fl.props and not any(k.get('obligation_match') and re.search(k['obligation_match'], fl.oid) for k in known_ids.values())))))
        thorough['proof_stability'] = stab
        if rc == 0 and any(s_['failed_obligations'] for s_ in stab):
            rc = 2
            lines.append('UNDECIDED property=%s unstable proof: fails under another solver seed: %s' % (prop, [s_['failed_obligations'] for s_ in stab if s_['failed_obligations']][0][:3]))
        # (b) replays of the known findings of this property against the real code
        try:
            from . import kani as K
            if known_ids:
                thorough['known_finding_replays'] = K.run_known_replays(sorted(known_ids))
            # (c) Kani cross-check (complete for the instance) of the RaftLogState contracts
            if prop in ('C01', 'C06', 'C16'):
                kr = K.run_all_harnesses()
                thorough['kani_harnesses'] = dict(results=kr, kind='loop-free, full-domain symbolic inputs: complete for LogId=Vote=(u64,u64); k_next_log_index is EXPECTED to fail (known finding D6)')
                bad = [h for h, v in kr.items() if not v.startswith('SUCCESSFUL') and h != 'k_next_log_index']
                if bad and rc == 0:
                    rc = 2
                    lines.append('UNDECIDED property=%s Kani disagrees with the proved contract in: %s' % (prop, bad))
        except Exception as e:
            thorough['secondary_engine_error'] = repr(e)[:300]
        # (d) sensitivity self-test: every stored seeded change that this property's check caught when it was stored must still be caught
        #     (scratch copy of the working tree + patch; informative only: it speaks about the machinery, not about the tree, so it never
        #     changes the verdict; a change that is no longer caught is printed as a WARNING line)
        if not _SCRATCH and not os.environ.get('VERIF_NO_SELFTEST'):
            try:
                st = seeded_selftest(prop)
                thorough['seeded_change_selftest'] = st
                for sid, v in sorted(st.items()):
                    if v.get('was_detected') and v.get('exit') != 1:
                        lines.append('WARNING property=%s seeded change %s was caught when stored and now gives exit %s' % (prop, sid, v.get('exit')))
            except Exception as e:
                thorough['seeded_change_selftest_error'] = repr(e)[:300]
    wall = time.time() - t0
    os.makedirs(EVID_DIR, exist_ok=True)
    ev = dict(
        property_id=prop, tier=tier, seed=int(seed or 0), level='proof',
        coverage=dict(
            obligations=max(0, n_obl - len(kseen_obl)), discharged=max(0, n_obl - len(kseen_obl) - n_failed),
            known_finding_obligations_excluded=sorted(kseen_obl),
            checker_cmd='verus gen/<unit>.rs --rlimit 20 --expand-errors --multiple-errors 20 --output-json --time --log air-final   (units: %s)' % ', '.join(r.unit for r in results),
            trusted_base=FIXED_TRUSTED,
            obligations_by_kind=by_kind,
            rule='an obligation is one `(location ...)` proof goal in the AIR Verus generates for a function under contract that carries this property (postcondition clause per exit, precondition per call site, invariant entry/preservation, assertion, arithmetic/bounds safety check); counted from --log air-final on this run; obligations that are red and recorded as known findings are NOT counted here, they are listed under known_finding_obligations_excluded / known_findings_hit',
            functions_under_contract=fn_list,
            back_end='Verus %s / Z3' % (results[0].verus.get('version', '?') if results else '?'),
            solver_ms_total=smt_ms,
            extraction_rules_applied=rules,
            units=[dict(unit=r.unit, status=unit_status(r), reason=r.reason, generated_sha256=r.gen_sha, wall_s=round(r.wall_s, 2), verified_functions=getattr(r, 'verified_count', None)) for r in results],
            known_findings_hit=[dict(id=k['id'], obligation=fl.oid, what=k['what']) for _r, fl, k in known_hits],
            vacuity_guard=dict(rule='for every function under contract with preconditions, a twin with the same signature and preconditions and body `assert(false)` must FAIL to verify', twins_checked=reach_checked, vacuous=reach_vacuous),
            samples=samples or [dict(note='no tagged ensures clause; see functions_under_contract')],
            exhaustive=False,
            **bounded,
            **thorough,
        ),
        assumptions=assumptions + [k['what'] for k in []],
        wall_s=round(wall, 2),
        violations=len(seen),
    )
    json.dump(ev, open(os.path.join(EVID_DIR, prop + '.json'), 'w'), indent=1)
    shutil.rmtree(gen_dir, ignore_errors=True)
    for l in lines:
        print(l)
    if not quiet:
        print('%s: %d obligations in %d functions, %d failed, %d known finding(s), units %s, %.1fs' % (
            prop, n_obl, len(fn_list), len(seen), len(kseen), ','.join('%s=%s' % (r.unit, unit_status(r)) for r in results), wall))
    return rc


def seeded_selftest(prop):
    """run this property's quick check against every stored seeded change that targets it (scratch copy + patch)"""
    import subprocess
    import tempfile
    out = {}
    sd = os.path.join(ROOT, 'seeded')
    for sid in sorted(os.listdir(sd)) if os.path.isdir(sd) else []:
        mp = os.path.join(sd, sid, 'meta.json')
        pp = os.path.join(sd, sid, 'patch.diff')
        if sid.startswith('_') or not (os.path.exists(mp) and os.path.exists(pp)):
            continue
        meta = json.load(open(mp))
        if meta.get('breaks_property') != prop:
            continue
        d = tempfile.mkdtemp(prefix='vself.')
        try:
            subprocess.run('git ls-files | rsync -a --files-from=- . %s/' % d, shell=True, cwd=REPO, check=True)
            pr = subprocess.run('patch -s -p1 < %s' % pp, shell=True, cwd=d, capture_output=True, text=True)
            if pr.returncode != 0:
                out[sid] = dict(exit=None, note='patch does not apply to the current tree', was_detected=bool(meta.get('detected_for_target')))
                continue
            env = dict(os.environ, VERIF_REPO=d, VERIF_EVIDENCE_DIR=os.path.join(d, '.verif_out'))
            q = subprocess.run([sys.executable, '-m', 'vf.check', prop, '--tier', 'quick'], cwd=ROOT, env=env, capture_output=True, text=True)
            first = [l for l in q.stdout.split('\n') if l.startswith('VIOLATION') or l.startswith('UNDECIDED')][:1]
            out[sid] = dict(exit=q.returncode, first_line=(first[0][:240] if first else ''), was_detected=bool(meta.get('detected_for_target')))
        finally:
            shutil.rmtree(d, ignore_errors=True)
    return out


def try_counterexample(prop, fl):
    """Hook for the Kani pairing (vf/kani.py); returns a dict or None."""
    try:
        from . import kani
    except Exception:
        return None
    try:
        return kani.counterexample_for(prop, fl)
    except Exception as e:  # never let the secondary engine turn a verdict into a crash
        return None


def main(argv=None):
    ap = argparse.ArgumentParser()
    ap.add_argument('prop')
    ap.add_argument('--tier', default=os.environ.get('VERIF_TIER', 'quick'))
    ap.add_argument('--unit', action='append')
    a = ap.parse_args(argv)
    seed = int(os.environ.get('VERIF_SEED', '0') or 0)
    units = [os.path.join(UNITS_DIR, u if u.endswith('.vt') else u + '.vt') for u in a.unit] if a.unit else None
    rc = decide(a.prop, a.tier, seed, units)
    sys.exit(rc)


if __name__ == '__main__':
    main()
