"""Extractor + contract splicer.

Reads a unit template (/verif/units/<unit>.vt), copies the listed items byte
for byte from /repo's working tree, applies the mechanical E-rules, splices the
contracts, and writes gen/<unit>.rs plus a line map used to turn Verus
diagnostics into obligation ids.

Template syntax
---------------
Every line is copied verbatim except:

  //@unit <id> <free text>
  //@include <path relative to /verif>
  //@struct <src> <Name>            copy a struct definition (E4 applied)
  //@enum   <src> <Name>
  //@fn <src> <Owner>::<name> [trait=<Trait>|trait=] [as=<newname>] [twin=<suffix>]
      ... spec lines ...
  //@end

Spec lines inside a //@fn block (indentation is significant only for clause
continuation):

  props: C15 C07            properties this function's obligations count for
  safety: C16               properties the generated safety checks count for
  attr: #[verifier::...]
  spectail: opens_invariants none   further signature-level spec clauses emitted after `ensures` (one per line)
  mode: external_body       emit signature+contract only (body assumed; must be
                            proved under the same contract text elsewhere)
  sigsub: /regex/repl/      mechanical signature rewrite (named E-rule in DESIGN)
  bodysub: /regex/repl/     mechanical body rewrite (named E-rule in DESIGN)
  ret: r                    name of the result (default r)
  requires:
    [C15 inv] old(self).inv()
    obeys_cmp::<T::LogId>()
  ensures:
    ...
  head:                     ghost text at the start of the body
  tail:                     ghost text at the end of the body (unit fns only)
  loopend N:                ghost text at the very end of the body of loop N (no statement text involved)
  tailexpr:                 ghost text immediately before the body's trailing expression (position found syntactically, no statement text)
  loop 1:
    invariant
      [C15 inv] self.inv()
    ensures
      ...
    decreases self.cache@.len()
  after "stmt text" [#n]:   ghost text after the n-th match of that text
  before "stmt text" [#n]:
  known <ID>:               clauses that are a recorded known finding; emitted
    ensures                 only in a twin copy  <fn>__kf_<ID>
      [C07 x] ...
"""
import hashlib
import json
import os
import re
import sys

from .rustsrc import Source, LostAnchor, mask, match_close

REPO = os.environ.get('VERIF_REPO', '/repo')
ROOT = os.path.dirname(os.path.dirname(os.path.abspath(__file__)))

LOG_MACROS = r'(?:log::)?(?:info|debug|warn|error|trace)'


# --------------------------------------------------------------------------
# E-rules on a copied text (signature or body).  Each returns list of edits
# (start, end, replacement) on the *masked* positions of `text`.
# --------------------------------------------------------------------------
def _macro_calls(text, m, name_re):
    for mt in re.finditer(r'(?<![A-Za-z0-9_:])(' + name_re + r')!\s*([(\[{])', m):
        op = mt.end() - 1
        cl = match_close(m, op)
        yield mt.start(), cl + 1, mt.group(1)


def keep_newlines(text, repl):
    return repl + '\n' * text.count('\n')


def erule_edits(text, rules_used):
    m = mask(text)
    edits = []

    def add(a, b, r, rule):
        edits.append((a, b, keep_newlines(text[a:b], r)))
        rules_used[rule] = rules_used.get(rule, 0) + 1

    # E2 logging macros -> ()
    for a, b, _n in _macro_calls(text, m, LOG_MACROS):
        add(a, b, '()', 'E2')
    # E3 format! -> fmt_opaque()
    for a, b, _n in _macro_calls(text, m, r'format'):
        if any(ea <= a and b <= eb for ea, eb, _ in edits):
            continue
        add(a, b, 'fmt_opaque()', 'E3')
    # debug_assert*: not part of release builds -> ()
    for a, b, _n in _macro_calls(text, m, r'debug_assert(?:_eq|_ne)?'):
        add(a, b, '()', 'E2d')
    # unreachable!/panic! -> vpanic() (requires false: reachability is an obligation)
    for a, b, _n in _macro_calls(text, m, r'unreachable|panic|unimplemented|todo'):
        add(a, b, 'vpanic()', 'E19')
    # E6 cache lock
    for mt in re.finditer(r'\s*\.\s*(?:read|write)\(\)\s*\.\s*unwrap\(\)', m):
        add(mt.start(), mt.end(), '', 'E6')
    # E4 visibility
    for mt in re.finditer(r'\bpub\((?:crate|super)\)', m):
        add(mt.start(), mt.end(), 'pub', 'E4')
    # drop nested overlapping edits (inner ones)
    edits.sort()
    res = []
    for e in edits:
        if res and e[0] < res[-1][1]:
            continue
        res.append(e)
    return res


def strip_ws(s):
    """(despaced string, list mapping despaced index -> original index)"""
    out, idx = [], []
    for i, c in enumerate(s):
        if not c.isspace():
            out.append(c)
            idx.append(i)
    return ''.join(out), idx


def find_anchor(body, bm, text, nth):
    """Locate the nth occurrence of `text` (whitespace-insensitive) in the code
    of `body` (bm = masked body, string contents blanked).  Returns
    (start, end, fuzzy)."""
    hay, idx = strip_ws(bm)
    needle, _ = strip_ws(mask(text))
    pos, start = -1, 0
    for _ in range(nth):
        pos = hay.find(needle, start)
        if pos < 0:
            break
        start = pos + 1
    if pos >= 0:
        return idx[pos], idx[pos + len(needle) - 1] + 1, False
    # fuzzy: token window with <= 2 substituted tokens
    tok = lambda s: [(mt.group(0), mt.start(), mt.end()) for mt in re.finditer(r'[A-Za-z_][A-Za-z0-9_]*|\d+|[^\sA-Za-z0-9_]', s)]
    ht, nt = tok(bm), [t[0] for t in tok(mask(text))]
    best = []
    for i in range(0, len(ht) - len(nt) + 1):
        mism = sum(1 for k in range(len(nt)) if ht[i + k][0] != nt[k])
        if mism <= max(1, min(2, len(nt) // 6)):
            best.append((mism, i))
    # also allow one inserted / deleted token
    if not best:
        for delta in (-1, 1):
            L = len(nt) + delta
            if L < 3:
                continue
            for i in range(0, len(ht) - L + 1):
                import difflib
                r = difflib.SequenceMatcher(None, [t[0] for t in ht[i:i + L]], nt).ratio()
                if r >= 0.85:
                    best.append((1 - r, i, L))
    if not best:
        raise LostAnchor('anchor not found: %r' % text)
    # order by position, pick nth among the best-quality matches
    q = min(b[0] for b in best)
    cands = sorted(b for b in best if b[0] == q)
    cands.sort(key=lambda b: b[1])
    if nth > len(cands):
        raise LostAnchor('anchor occurrence %d not found: %r' % (nth, text))
    b = cands[nth - 1]
    L = b[2] if len(b) > 2 else len(nt)
    return ht[b[1]][1], ht[b[1] + L - 1][2], True


# --------------------------------------------------------------------------
class Clause:
    def __init__(self, kind, text, tags, name, fn, known=None, loop=None):
        self.kind, self.text, self.tags, self.name = kind, text, tags, name
        self.fn, self.known, self.loop = fn, known, loop
        self.gen_lines = None

    def ident(self, unit):
        props = ','.join(self.tags) if self.tags else ','.join(self.fn.props)
        loop = ('loop%d.' % self.loop) if self.loop else ''
        return '%s.%s.%s.%s%s.%s' % (props, unit, self.fn.qual, loop, self.kind, self.name)


class FnSpec:
    def __init__(self, src, owner, name, opts):
        self.src, self.owner, self.name, self.opts = src, owner, name, opts
        self.qual = (owner + '::' if owner else '') + name
        self.props, self.safety = [], None
        self.attrs, self.sigsubs, self.bodysubs = [], [], []
        self.mode = 'verify'
        self.ret = 'r'
        self.requires, self.ensures = [], []
        self.head, self.tail = [], []
        self.loops = {}       # n -> dict(invariant=[], ensures=[], decreases=[], attr=[])
        self.anchors = []     # (where, text, nth, [ghost lines])
        self.known = {}       # id -> dict(requires=[], ensures=[], loops={}, bodysubs=[])
        self.part = None      # ('closure', n) | ('before', text): rule E8, a sub-expression of the body becomes the body
        self.sig = None       # signature text to use with `part`
        self.ghost_tag = {}


SECTION_RE = re.compile(r'^(props|safety|attr|mode|spectail|tailexpr|loopend\s+\d+|sigsub|bodysub\?|bodysub|ret|part|sig|requires|ensures|head|tail|loop\s+\d+|after\s+".*"\s*(?:#\d+)?|before\s+".*"\s*(?:#\d+)?|known\s+\w+)\s*:\s*(.*)$')
TAG_RE = re.compile(r'^\[([A-Z0-9, ]*?)(?:\s+([A-Za-z0-9_.-]+))?\]\s*(.*)$', re.S)


def parse_clauses(lines, kind, fn, known=None, loop=None, counter=None):
    """lines: list of raw text lines (with indentation).  A line that starts
    with '[' (after indentation) or sits at the base indentation starts a new
    clause; deeper lines continue the previous one."""
    res = []
    base = None
    for ln in lines:
        if not ln.strip():
            continue
        ind = len(ln) - len(ln.lstrip())
        if base is None:
            base = ind
        if (ind <= base or ln.lstrip().startswith('[')) and not (res and ln.lstrip()[:1] in '})'):
            res.append([ln.strip()])
        else:
            res[-1].append(ln.strip())
    out = []
    for parts in res:
        text = '\n                '.join(parts)
        tags, name = [], None
        mt = TAG_RE.match(text)
        if mt:
            tags = [t for t in re.split(r'[ ,]+', mt.group(1)) if t]
            name = mt.group(2)
            text = mt.group(3)
        text = text.rstrip().rstrip(',')
        counter[0] += 1
        out.append(Clause(kind, text, tags, name or ('c%d' % counter[0]), fn, known, loop))
    return out


def parse_fn_block(header, lines):
    parts = header.split()
    src, qual = parts[0], parts[1]
    opts = dict(p.split('=', 1) for p in parts[2:])
    owner, name = qual.rsplit('::', 1) if '::' in qual else ('', qual)
    fn = FnSpec(src, owner, name, opts)
    counter = [0]
    # split into sections
    sections = []
    for ln in lines:
        s = ln.strip()
        mt = SECTION_RE.match(s) if (len(ln) - len(ln.lstrip())) <= 2 else None
        if mt:
            sections.append([mt.group(1), [(' ' * 100) + mt.group(2)] if mt.group(2).strip() else []])
        else:
            if not sections:
                if s:
                    raise SystemExit('spec line outside a section in %s: %r' % (qual, ln))
                continue
            sections[-1][1].append(ln)
    for key, body in sections:
        first = body[0].strip() if body else ''
        if key == 'props':
            fn.props = ' '.join(b.strip() for b in body).split()
        elif key == 'safety':
            fn.safety = ' '.join(b.strip() for b in body).split()
        elif key == 'attr':
            fn.attrs += [b.strip() for b in body if b.strip()]
        elif key == 'mode':
            fn.mode = first
        elif key == 'spectail':
            fn.spectail = getattr(fn, 'spectail', []) + [b.strip() for b in body if b.strip()]
        elif key == 'ret':
            fn.ret = first
        elif key == 'part':
            mt = re.match(r'closure\s+(\d+)$', first)
            if mt:
                fn.part = ('closure', int(mt.group(1)))
            else:
                mt = re.match(r'before\s+"(.*)"$', first)
                fn.part = ('before', mt.group(1))
        elif key == 'sig':
            fn.sig = first
        elif key in ('sigsub', 'bodysub', 'bodysub?'):
            for b in body:
                b = b.strip()
                if not b:
                    continue
                sep = b[0]
                a, r = b[1:].rstrip(sep).split(sep)[:2] if b.endswith(sep) else b[1:].split(sep)[:2]
                if key == 'bodysub?':
                    fn.bodysubs.append((a, r, True))
                else:
                    (fn.sigsubs if key == 'sigsub' else fn.bodysubs).append((a, r))
        elif key == 'requires':
            fn.requires += parse_clauses(body, 'requires', fn, counter=counter)
        elif key == 'ensures':
            fn.ensures += parse_clauses(body, 'ensures', fn, counter=counter)
        elif key == 'head':
            fn.head += body
        elif key == 'tail':
            fn.tail += body
        elif key == 'tailexpr':
            fn.tailexpr = getattr(fn, 'tailexpr', []) + body
        elif key.startswith('loopend'):
            n = int(key.split()[1])
            fn.loopends = getattr(fn, 'loopends', {})
            fn.loopends[n] = fn.loopends.get(n, []) + body
        elif key.startswith('loop'):
            n = int(key.split()[1])
            fn.loops[n] = parse_loop(body, fn, n, counter)
        elif key.startswith('after') or key.startswith('before'):
            mt = re.match(r'(after|before)\s+"(.*)"\s*(?:#(\d+))?$', key)
            fn.anchors.append((mt.group(1), mt.group(2), int(mt.group(3) or 1), body))
        elif key.startswith('known'):
            kid = key.split()[1]
            k = fn.known.setdefault(kid, dict(requires=[], ensures=[], loops={}, bodysubs=[], drop=[]))
            sub, cur = {}, None
            for b in body:
                s = b.strip()
                if s.startswith('drop:'):
                    k['drop'] += s[5:].split()
                    continue
                if s.startswith('bodysub ') and len(s) > 9:
                    v = s[8:].strip()
                    sep = v[0]
                    a_, r_ = v[1:].rstrip(sep).split(sep)[:2]
                    k['bodysubs'].append((a_, r_))
                    continue
                if s in ('requires', 'ensures') or re.match(r'loop \d+ invariant$', s):
                    cur = s
                    sub[cur] = []
                elif cur is not None:
                    sub[cur].append(b)
            for ck, cl in sub.items():
                if ck in ('requires', 'ensures'):
                    k[ck] += parse_clauses(cl, ck, fn, known=kid, counter=counter)
                elif ck.startswith('loop'):
                    n = int(ck.split()[1])
                    k['loops'].setdefault(n, []).extend(parse_clauses(cl, 'invariant', fn, known=kid, loop=n, counter=counter))
                elif ck.startswith('bodysub'):
                    for b in cl:
                        b = b.strip()
                        if b:
                            sep = b[0]
                            a, r = b[1:].rstrip(sep).split(sep)[:2]
                            k['bodysubs'].append((a, r))
    if not fn.props:
        raise SystemExit('fn %s has no props' % qual)
    if fn.safety is None:
        fn.safety = list(fn.props)
    return fn


def find_fn_block(unit_path, qual, seen=None):
    """Find the //@fn block for `qual` in a unit template (or the files it includes)."""
    seen = seen or set()
    if unit_path in seen:
        return None
    seen.add(unit_path)
    lines = open(unit_path).read().split('\n')
    i = 0
    while i < len(lines):
        s = lines[i].strip()
        if s.startswith('//@fn'):
            j = i + 1
            while not lines[j].strip().startswith('//@end'):
                j += 1
            hdr = s[len('//@fn'):].strip()
            if hdr.split()[1] == qual:
                return parse_fn_block(hdr, lines[i + 1:j])
            i = j
        elif s.startswith('//@include'):
            r = find_fn_block(os.path.join(ROOT, s.split()[1]), qual, seen)
            if r is not None:
                return r
        i += 1
    if len(seen) == 1:
        raise SystemExit('//@use: %s not found in %s' % (qual, unit_path))
    return None


def parse_loop(body, fn, n, counter):
    d = dict(invariant=[], ensures=[], decreases=[], attr=[], invariant_except_break=[])
    cur = None
    buf = {}
    for ln in body:
        s = ln.strip()
        mt = re.match(r'^(invariant_except_break|invariant|ensures|decreases|attr)\b\s*(.*)$', s)
        if mt and (len(ln) - len(ln.lstrip())) <= 6 and not s.startswith('['):
            cur = mt.group(1)
            buf.setdefault(cur, [])
            if mt.group(2):
                buf[cur].append((' ' * 100) + mt.group(2))
        elif cur:
            buf[cur].append(ln)
    for k, v in buf.items():
        if k in ('invariant', 'ensures', 'invariant_except_break'):
            d[k] = parse_clauses(v, k, fn, loop=n, counter=counter)
        else:
            d[k] = [x.strip().rstrip(',') for x in v if x.strip()]
    return d


# --------------------------------------------------------------------------
class Out:
    def __init__(self):
        self.lines = []
        self.map = []     # per line: dict or None

    def emit(self, text, info=None):
        for ln in text.split('\n'):
            self.lines.append(ln)
            self.map.append(info)

    def lineno(self):
        return len(self.lines)  # number of lines so far (next line is +1)


class Generator:
    def __init__(self, unit_path, exclude=(), reach=False):
        self.reach = reach            # vacuity guard: emit `fn f__reach(..) requires <same> { assert(false) }` twins only
        self.unit_path = unit_path
        self.exclude = set(exclude)   # functions Verus cannot take in their current shape: emitted as contract only
        self.unit = os.path.splitext(os.path.basename(unit_path))[0]
        self.out = Out()
        self.sources = {}
        self.items = []        # extracted items: dict(path, kind, name, lines, sha)
        self.fns = []          # dicts describing each emitted fn
        self.rules_used = {}
        self.fuzzy = []
        self.unit_props = []
        self.uses = []
        self.defines = set()
        self.lost = []
        self.consts = {}

    def source(self, rel):
        if rel not in self.sources:
            p = os.path.join(REPO, rel)
            if not os.path.exists(p):
                raise LostAnchor('source file missing: ' + rel)
            self.sources[rel] = Source(rel, open(p).read())
        return self.sources[rel]

    # ---- template ------------------------------------------------------
    def run(self):
        self._process_file(self.unit_path)
        return self

    def _process_file(self, path):
        text = open(path).read()
        # conditional fragments  /*+NAME: text */  (kept only when NAME is defined by an //@include ... define=NAME)
        text = re.sub(r'/\*\+(\w+):(.*?)\*/', lambda m: m.group(2) if m.group(1) in self.defines else '', text, flags=re.S)
        lines = text.split('\n')
        i = 0
        while i < len(lines):
            ln = lines[i]
            s = ln.strip()
            if s.startswith('//@unit'):
                self.unit_props = re.findall(r'\bC\d\d\b', s)
            elif s.startswith('//@include'):
                parts = s.split()
                for d in parts[2:]:
                    if d.startswith('define='):
                        self.defines.add(d[7:])
                self._process_file(os.path.join(ROOT, parts[1]))
            elif s.startswith('//@struct') or s.startswith('//@enum'):
                p = s.split()
                self.emit_item(p[0][3:], p[1], p[2], p[3:])
            elif s.startswith('//@const'):
                # //@const NAME <src> <regex with one group>: a literal taken from the working tree (e.g. a default value); later
                # template text may use @NAME@.  Keeps the spec in step with constants the properties do not pin down.
                parts = s.split(None, 3)
                srcf = self.source(parts[2])
                mt = re.search(parts[3], srcf.text)
                if not mt:
                    raise LostAnchor('%s: constant %s not found (%s)' % (parts[2], parts[1], parts[3]))
                self.consts[parts[1]] = mt.group(1).strip()
            elif s.startswith('//@lemma'):
                # //@lemma <name> <props...>: a spec-level lemma over the contracts (template text, not extracted code) that carries a property
                parts = s.split()
                self.pending_lemma = (parts[1], parts[2:])
            elif s.startswith('//@use'):
                # //@use <unit file> <Owner::fn> [...]: the contract of a function proved in its home
                # unit, emitted here as signature + contract only (external_body)
                p = s.split()
                for q in p[2:]:
                    fn = find_fn_block(os.path.join(ROOT, 'units', p[1]), q)
                    fn.mode = 'external_body'
                    fn.home = p[1]
                    self.uses.append((p[1], q))
                    self.emit_fn(fn)
            elif s.startswith('//@fn'):
                j = i + 1
                while not lines[j].strip().startswith('//@end'):
                    j += 1
                fn = parse_fn_block(s[len('//@fn'):].strip(), lines[i + 1:j])
                self.emit_fn(fn)
                i = j
            elif s.startswith('//@'):
                raise SystemExit('unknown directive: ' + s)
            else:
                if '@' in ln and self.consts:
                    ln = re.sub(r'@(\w+)@', lambda m_: self.consts.get(m_.group(1), m_.group(0)), ln)
                self.out.emit(ln, None)
                pl = getattr(self, 'pending_lemma', None)
                if pl and re.search(r'\bproof fn\s+' + re.escape(pl[0]) + r'\b', ln):
                    self.lemma_open = dict(qual=pl[0], emit_name=pl[0], known=None, props=pl[1], safety=pl[1], excluded=False, src=os.path.relpath(path, ROOT),
                                           start_line=self.out.lineno(), clauses=[], mode='lemma', fnspec=None, src_lines=[i + 1, i + 1], depth=0, seen=False)
                    self.pending_lemma = None
                lo = getattr(self, 'lemma_open', None)
                if lo:
                    if not lo['seen']:
                        if ln.strip() == '{':      # the body of a lemma opens with a brace on its own line
                            lo['seen'] = True
                            lo['depth'] = 1
                    else:
                        lo['depth'] += ln.count('{') - ln.count('}')
                    if lo['seen'] and lo['depth'] <= 0:
                        lo['end_line'] = self.out.lineno()
                        lo['src_lines'][1] = i + 1
                        lo.pop('depth'); lo.pop('seen')
                        self.fns.append(lo)
                        self.lemma_open = None
            i += 1

    # ---- items ---------------------------------------------------------
    def emit_item(self, kind, rel, name, opts):
        src = self.source(rel)
        a, b = src.find_item(kind, name)
        text = src.text[a:b]
        self.record_item(src, kind, name, a, b)
        # E4: drop doc comments and attributes inside, pub(crate)->pub
        m = mask(text)
        edits = [(mt.start(), mt.end(), 'pub') for mt in re.finditer(r'\bpub\((?:crate|super)\)', m)]
        # attributes #[...]
        for mt in re.finditer(r'#\[', m):
            cl = match_close(m, mt.end() - 1)
            edits.append((mt.start(), cl + 1, ''))
        # comments: mask replaced them with spaces; copy masked text for those regions
        text2 = apply_edits(text, edits)
        text3 = strip_comments(text2)
        for o in opts:
            if o.startswith('sub='):
                sep = o[4]
                a_, r_ = o[5:].rstrip(sep).split(sep)[:2]
                text3 = re.sub(a_, r_, text3)
        if 'allpub' in opts:
            text3 = make_fields_pub(text3)
        for o in opts:
            if o.startswith('addfield='):   # E9: ghost field for the effect trace
                nm, ty = o[9:].split(':', 1)
                k = text3.rstrip().rfind('}')
                text3 = text3[:k] + '    pub %s: %s,\n' % (nm, ty) + text3[k:]
        for o in opts:
            if o.startswith('derive='):
                self.out.emit('#[derive(%s)]' % o[7:].replace(',', ', '))
            if o.startswith('attr='):
                self.out.emit(o[5:])
        self.out.emit(text3, dict(kind='item', src=rel, line=src.text.count('\n', 0, a) + 1))

    def record_item(self, src, kind, name, a, b):
        text = src.text[a:b]
        self.items.append(dict(path=src.path, kind=kind, name=name,
                               lines=[src.text.count('\n', 0, a) + 1, src.text.count('\n', 0, b) + 1],
                               sha256=hashlib.sha256(text.encode()).hexdigest()))

    # ---- functions -----------------------------------------------------
    def emit_fn(self, fn: FnSpec):
        if fn.qual in self.exclude or fn.opts.get('as', '') in self.exclude:
            fn.mode = 'external_body'
            fn.excluded = True
        if self.reach:
            fn.reach_twin = fn.mode == 'verify' and bool(fn.requires)
            fn.mode = 'external_body'
        src = self.source(fn.src)
        loc = src.find_fn(fn.owner, fn.name, fn.opts.get('trait'))
        self.record_item(src, 'fn', fn.qual, loc['start'], loc['body_close'] + 1)
        sig = src.text[loc['start']:loc['body_open']]
        body = src.text[loc['body_open'] + 1:loc['body_close']]
        body_off = loc['body_open'] + 1
        part_lost = None
        if fn.part:
            # rule E8: lift a closure body / the receiver expression in front of it into a function of its own
            bm0 = mask(body)
            try:
                if fn.part[0] == 'closure':
                    cl = [mt for mt in re.finditer(r'\|[^|]*\|\s*\{', bm0)]
                    if fn.part[1] > len(cl):
                        raise LostAnchor('%s: closure %d not found' % (fn.qual, fn.part[1]))
                    mt = cl[fn.part[1] - 1]
                    o = mt.end() - 1
                    c = match_close(bm0, o)
                    body_off += o + 1
                    body = body[o + 1:c]
                else:
                    a_, b_, _fz = find_anchor(body, bm0, fn.part[1], 1)
                    body = body[:a_]
            except LostAnchor as e:
                part_lost = e      # the part cannot be cut out any more: the lifted function is out of reach, not the whole unit
            sig = fn.sig + ' '
        body_line0 = src.text.count('\n', 0, body_off) + 1
        variants = [(None, fn.opts.get('as', fn.name))]
        for kid in (fn.known if (fn.mode != 'external_body' and not self.reach) else []):
            variants.append((kid, fn.opts.get('as', fn.name) + '__kf_' + kid))
        for kid, emit_name in variants:
            mark = (len(self.out.lines), len(self.fns))
            try:
                if part_lost is not None:
                    raise part_lost
                self._emit_fn_variant(fn, src, sig, body, body_line0, kid, emit_name, loc)
            except LostAnchor as e:
                # the function is there but no longer has the shape the contract is anchored in: keep its contract for the
                # callers (assumed), and report the properties that depend on this function as undecided
                if fn.mode == 'external_body':
                    raise
                del self.out.lines[mark[0]:]
                del self.out.map[mark[0]:]
                del self.fns[mark[1]:]
                fn.mode = 'external_body'
                fn.excluded = True
                self.lost.append('%s: %s' % (fn.qual, e))
                if not kid:
                    self._emit_fn_variant(fn, src, sig, body, body_line0, None, emit_name, loc)

    def _emit_fn_variant(self, fn, src, sig, body, body_line0, kid, emit_name, loc):
        out = self.out
        known = fn.known.get(kid) if kid else None
        # ---- signature ----
        sig2 = apply_edits(sig, erule_edits(sig, self.rules_used))
        sig2 = strip_comments(sig2)
        for a, r in fn.sigsubs:
            sig2, n = re.subn(a, r, sig2)
            if n == 0:
                raise LostAnchor('%s: sigsub %r does not match' % (fn.qual, a))
        if emit_name != fn.name:
            sig2 = re.sub(r'\bfn\s+' + re.escape(fn.name) + r'\b', 'fn ' + emit_name, sig2, 1)
        sig2 = name_return(sig2, fn.ret)
        start_line = out.lineno() + 1
        for a in fn.attrs:
            out.emit('    ' + a)
        if fn.mode == 'external_body':
            out.emit('    #[verifier::external_body]')
        out.emit('    ' + ' '.join(sig2.split()), dict(kind='sig', fn=fn.qual))
        clauses = []

        def emit_clauses(keyword, cls, indent='        '):
            if not cls:
                return
            out.emit(indent + keyword)
            for c in cls:
                a = out.lineno() + 1
                out.emit(indent + '    ' + self.subst(c.text) + ',', dict(kind='clause', clause=c))
                c2 = c
                clauses.append((c, a, out.lineno(), kid))

        req = [c for c in fn.requires if not (known and c.name in known['drop'])] + (known['requires'] if known else [])
        ens = fn.ensures + (known['ensures'] if known else [])
        emit_clauses('requires', req)
        emit_clauses('ensures', ens)
        for t in getattr(fn, 'spectail', []):
            # further signature-level spec clauses Verus wants after `ensures` (e.g. `opens_invariants none`, `no_unwind` on Drop::drop)
            out.emit('        ' + t)
        rec = dict(qual=fn.qual, emit_name=emit_name, known=kid, props=fn.props, safety=fn.safety, excluded=getattr(fn, 'excluded', False),
                   src=fn.src, start_line=start_line, clauses=clauses, mode=fn.mode, fnspec=fn,
                   src_lines=[src.text.count('\n', 0, loc['start']) + 1, src.text.count('\n', 0, loc['body_close']) + 1])
        if fn.mode == 'external_body':
            out.emit('    { unimplemented!() }')
            rec['end_line'] = out.lineno()
            self.fns.append(rec)
            if self.reach and getattr(fn, 'reach_twin', False) and not kid:
                # the same preconditions must be satisfiable: `assert(false)` under them has to FAIL
                a0 = out.lineno() + 1
                sig3 = re.sub(r'\bfn\s+' + re.escape(emit_name) + r'\b', 'fn ' + emit_name + '__reach', sig2, 1)
                out.emit('    ' + ' '.join(sig3.split()))
                out.emit('        requires')
                for c in req:
                    out.emit('            ' + c.text + ',')
                out.emit('    { proof { assert(false); } vstd::pervasive::unreached() }')
                self.fns.append(dict(rec, emit_name=emit_name + '__reach', reach=True, start_line=a0, end_line=out.lineno(), clauses=[]))
            return
        # ---- body ----
        edits = erule_edits(body, self.rules_used)
        bm = mask(body)
        inserts = []   # (pos, text, kind)

        def ghost_text(lines):
            ls = [l.rstrip() for l in lines]
            while ls and not ls[0].strip():
                ls.pop(0)
            while ls and not ls[-1].strip():
                ls.pop()
            if not ls:
                return ''
            ind = min(len(l) - len(l.lstrip()) for l in ls if l.strip())
            return self.subst('\n'.join('        ' + l[ind:] for l in ls))

        if fn.head:
            inserts.append((0, '\n' + ghost_text(fn.head) + '\n', 'ghost'))
        if fn.tail:
            inserts.append((len(body.rstrip()), '\n' + ghost_text(fn.tail) + '\n', 'ghost'))
        if getattr(fn, 'tailexpr', None):
            # ghost text immediately before the body's trailing expression, found syntactically (no statement text involved):
            # the position after the last top-level `;`, or after a top-level `}` that closes a block statement
            depth, cand = 0, 0
            end = len(bm.rstrip())
            k = 0
            while k < end:
                ch = bm[k]
                if ch in '([{':
                    depth += 1
                elif ch in ')]}':
                    depth -= 1
                    if ch == '}' and depth == 0:
                        rest = bm[k + 1:end].lstrip()
                        if rest and not re.match(r'^(\.|\?|else\b|,|\)|;|[-+*/%&|^<>=!])', rest):
                            cand = k + 1
                elif ch == ';' and depth == 0:
                    if bm[k + 1:end].strip():
                        cand = k + 1
                k += 1
            inserts.append((cand, '\n' + ghost_text(fn.tailexpr) + '\n', 'ghost_tail'))
        for where, text, nth, glines in fn.anchors:
            a, b, fuzzy = find_anchor(body, bm, text, nth)
            if fuzzy:
                self.fuzzy.append('%s: anchor %r matched approximately' % (fn.qual, text))
            g = ghost_text(glines)
            if where == 'after':
                # snap to the end of the statement the anchor lies in
                if bm[b - 1] not in ';{}':
                    j, depth = a, 0     # scan from the start of the anchor so brackets it opens are balanced
                    while j < len(bm):
                        ch = bm[j]
                        if ch in '([{':
                            depth += 1
                        elif ch in ')]}':
                            if depth == 0:
                                break      # tail expression of the enclosing block
                            depth -= 1
                        elif ch == ';' and depth == 0:
                            break
                        j += 1
                    if j < len(bm) and bm[j] == ';':
                        b = j + 1
                    else:
                        b = j
                        g = ';\n' + g
                inserts.append((b, '\n' + g + '\n', 'ghost'))
            else:
                # snap to the start of the statement the anchor lies in
                j, depth = a - 1, 0
                while j >= 0:
                    ch = bm[j]
                    if ch in ')]}':
                        if ch == '}' and depth == 0:
                            break
                        depth += 1
                    elif ch in '([{':
                        if depth == 0:
                            break
                        depth -= 1
                    elif ch == ';' and depth == 0:
                        break
                    j -= 1
                a2 = j + 1
                # `else` / match-arm heads are not statement starts: keep the exact position then
                between = bm[a2:a].strip()
                if between and not re.match(r'^(let\b|[\w\.\[\]\*&]+\s*(=|\+=|-=)|return\b|[\w\.:<>]+\(?)', between):
                    a2 = a
                if '=>' in between or between.startswith('else'):
                    a2 = a
                inserts.append((a2, '\n' + g + '\n', 'ghost'))
        # loops
        loop_pos = [mt for mt in re.finditer(r'(?<![A-Za-z0-9_])(while|loop|for)\b', bm)]
        loop_pos = [mt for mt in loop_pos if not re.match(r'\s*<', bm[mt.end():])]  # not `for<'a>`
        loops = dict(fn.loops)
        kloops = known['loops'] if known else {}
        for n in set(loops) | set(kloops) | set(getattr(fn, 'loopends', {})):
            if n > len(loop_pos):
                raise LostAnchor('%s: loop %d not found' % (fn.qual, n))
            mt = loop_pos[n - 1]
            j = mt.end()
            depth = 0
            while True:
                ch = bm[j]
                if ch in '([':
                    depth += 1
                elif ch in ')]':
                    depth -= 1
                elif ch == '{' and depth == 0:
                    break
                j += 1
            if n in getattr(fn, 'loopends', {}):
                # ghost text at the very end of the loop body (just before its closing brace): needs no statement text
                e = match_close(bm, j)
                inserts.append((e, '\n' + ghost_text(fn.loopends[n]) + '\n', 'ghost_tail'))
            if n not in loops and n not in kloops:
                continue
            spec = loops.get(n, dict(invariant=[], ensures=[], decreases=[], attr=[], invariant_except_break=[]))
            inv = spec['invariant'] + kloops.get(n, [])
            inserts.append((j, ('LOOPSPEC', spec, inv), 'loopspec'))
            if spec['attr']:
                inserts.append((mt.start(), '\n'.join(spec['attr']) + '\n', 'ghost'))
        for bs in fn.bodysubs + (known['bodysubs'] if known else []):
            a, r = bs[0], bs[1]
            found = len(bs) > 2     # optional rule (bodysub?): fine when the pattern does not occur
            for mt in re.finditer(a, bm):
                edits.append((mt.start(), mt.end(), keep_newlines(body[mt.start():mt.end()], mt.expand(r))))
                found = True
            if not found:
                raise LostAnchor('%s: bodysub %r does not match' % (fn.qual, a))
        edits.sort()
        # ---- assemble with a line map ----
        out.emit('    {', dict(kind='body', fn=fn.qual))
        events = [(e[0], 0, 'edit', e) for e in edits] + [(p, 2 if k == 'ghost_tail' else 1, 'ghost' if k == 'ghost_tail' else k, t) for p, t, k in inserts]
        events.sort(key=lambda e: (e[0], e[1]))
        pos = 0
        cur = []   # pieces: (text, srcline or None)

        def flush_src(a, b):
            if a < b:
                cur.append((body[a:b], body_line0 + body.count('\n', 0, a)))

        for p, _o, k, t in events:
            if p < pos:
                continue   # inside an edited region
            flush_src(pos, p)
            pos = p
            if k == 'edit':
                cur.append((t[2], body_line0 + body.count('\n', 0, t[0])))
                pos = t[1]
            elif k == 'ghost':
                cur.append((t, None))
            elif k == 'loopspec':
                cur.append((t, 'loopspec'))
        flush_src(pos, len(body))
        # emit pieces line by line
        acc = ''
        acc_src = None

        def emit_line(text, srcline):
            out.emit(text, dict(kind='src', src=fn.src, line=srcline, fn=fn.qual) if srcline else dict(kind='ghost', fn=fn.qual))

        pending = ''
        pending_src = None
        for text, origin in cur:
            if origin == 'loopspec':
                _tag, spec, inv = text
                if pending.strip():
                    emit_line(pending, pending_src)
                pending, pending_src = '', None
                emit_clauses('invariant_except_break', spec['invariant_except_break'], '            ')   # Verus wants this clause first
                emit_clauses('invariant', inv, '            ')
                emit_clauses('ensures', spec['ensures'], '            ')
                if spec['decreases']:
                    out.emit('            decreases ' + ', '.join(spec['decreases']) + ',', dict(kind='decreases', fn=fn.qual))
                continue
            srcline = origin
            parts = text.split('\n')
            for k2, part in enumerate(parts):
                if k2 > 0:
                    emit_line(pending, pending_src)
                    pending, pending_src = '', None
                    if srcline is not None:
                        srcline += 1
                pending += part
                if srcline is not None and part.strip():
                    pending_src = srcline if pending_src is None else pending_src
        if pending.strip():
            emit_line(pending, pending_src)
        out.emit('    }', dict(kind='body-end', fn=fn.qual))
        rec['end_line'] = out.lineno()
        self.fns.append(rec)

    def subst(self, text):
        if '@' in text and self.consts:
            return re.sub(r'@(\w+)@', lambda m_: self.consts.get(m_.group(1), m_.group(0)), text)
        return text

    # ---- write ---------------------------------------------------------
    def write(self, gen_dir):
        os.makedirs(gen_dir, exist_ok=True)
        path = os.path.join(gen_dir, self.unit + '.rs')
        open(path, 'w').write('\n'.join(self.out.lines) + '\n')
        return path


def apply_edits(text, edits):
    edits = sorted(edits)
    out, pos = [], 0
    for a, b, r in edits:
        if a < pos:
            continue
        out.append(text[pos:a])
        out.append(r)
        pos = b
    out.append(text[pos:])
    return ''.join(out)


def strip_comments(text):
    """Remove comments (E4), keeping the newlines they contain."""
    spans = []
    mask(text, spans)
    return apply_edits(text, [(a, b, '\n' * text.count('\n', a, b)) for a, b in spans])


def make_fields_pub(text):
    # struct fields at depth 1: `name: Type,` -> `pub name: Type,`
    m = mask(text)
    o = m.find('{')
    if o < 0:
        return text
    res = text[:o + 1]
    body = text[o + 1:]
    body = re.sub(r'(?m)^(\s*)(?!pub\b)([a-z_][A-Za-z0-9_]*\s*:)', r'\1pub \2', body)
    return res + body


def name_return(sig, ret):
    m = mask(sig)
    # find '->' at paren depth 0 after the parameter list
    o = m.index('(', m.index('fn '))
    c = match_close(m, o)
    rest = sig[c + 1:]
    mt = re.match(r'\s*->\s*', rest)
    if not mt:
        return sig
    ty = rest[mt.end():]
    wm = re.search(r'\bwhere\b', mask(ty))
    where = ''
    if wm:
        where = ' ' + ty[wm.start():]
        ty = ty[:wm.start()]
    return sig[:c + 1] + ' -> (' + ret + ': ' + ty.strip() + ')' + where
