"""Light-weight Rust source scanner used by the extractor.

It does not parse Rust; it classifies every byte of a source file as code /
comment / string so that brace matching, item location and statement anchors
work on code only.  Everything the extractor copies is copied byte for byte
from the file; this module only finds *where* items start and end.
"""
import re


class LostAnchor(Exception):
    """An item / anchor the contracts refer to is not in the working tree
    (=> verdict 'undecided', exit 2; never an alarm)."""


def mask(src: str, comments=None) -> str:
    """Return a string of the same length where comments, string and char
    literals are replaced by spaces (newlines kept).  If `comments` is a list,
    (start, end) spans of comments are appended to it."""
    out = list(src)
    i, n = 0, len(src)

    def blank(a, b):
        for k in range(a, b):
            if out[k] != '\n':
                out[k] = ' '

    while i < n:
        c = src[i]
        if c == '/' and i + 1 < n and src[i + 1] == '/':
            j = src.find('\n', i)
            j = n if j < 0 else j
            blank(i, j)
            if comments is not None:
                comments.append((i, j))
            i = j
        elif c == '/' and i + 1 < n and src[i + 1] == '*':
            depth, j = 1, i + 2
            while j < n and depth:
                if src.startswith('/*', j):
                    depth += 1
                    j += 2
                elif src.startswith('*/', j):
                    depth -= 1
                    j += 2
                else:
                    j += 1
            blank(i, j)
            if comments is not None:
                comments.append((i, j))
            i = j
        elif c == '"' or (c in 'rb' and re.match(r'(?:b?r#*"|b")', src[i:i + 8]) and (i == 0 or not (src[i - 1].isalnum() or src[i - 1] == '_'))):
            m = re.match(r'b?r(#*)"', src[i:])
            if m:
                hashes = m.group(1)
                end = src.find('"' + hashes, i + m.end())
                j = n if end < 0 else end + 1 + len(hashes)
            else:
                j = i + (2 if c == 'b' else 1)
                while j < n and src[j] != '"':
                    j += 2 if src[j] == '\\' else 1
                j += 1
            # keep the quotes so the token stays visible as a literal
            blank(i + 1, j - 1)
            i = j
        elif c == "'":
            # char literal or lifetime
            m = re.match(r"'(?:\\.[^']*|[^'\\])'", src[i:])
            if m:
                blank(i + 1, i + m.end() - 1)
                i += m.end()
            else:
                i += 1
        else:
            i += 1
    return ''.join(out)


OPEN = {'{': '}', '(': ')', '[': ']'}
CLOSE = {v: k for k, v in OPEN.items()}


def match_close(m: str, i: int) -> int:
    """m is masked text, m[i] is an opening bracket; return index of its mate."""
    stack = []
    n = len(m)
    j = i
    while j < n:
        c = m[j]
        if c in OPEN:
            stack.append(c)
        elif c in CLOSE:
            if not stack or stack[-1] != CLOSE[c]:
                raise LostAnchor('unbalanced bracket at %d' % j)
            stack.pop()
            if not stack:
                return j
        j += 1
    raise LostAnchor('no closing bracket for %d' % i)


def line_of(src: str, pos: int) -> int:
    return src.count('\n', 0, pos) + 1


class Source:
    def __init__(self, path: str, text: str):
        self.path = path
        self.text = text
        self.m = mask(text)

    # ---- blocks -------------------------------------------------------
    def blocks(self, kw_re: str):
        """Yield (header_start, brace_open, brace_close) for top-level-ish
        `impl`/`trait` blocks whose header matches kw_re."""
        for mt in re.finditer(kw_re, self.m):
            start = mt.start()
            # header runs to the first '{' at bracket depth 0 (angle brackets ignored)
            j = mt.end()
            depth = 0
            while j < len(self.m):
                c = self.m[j]
                if c in '([':
                    depth += 1
                elif c in ')]':
                    depth -= 1
                elif c == '{' and depth == 0:
                    break
                elif c == ';' and depth == 0:
                    j = -1
                    break
                j += 1
            if j < 0 or j >= len(self.m):
                continue
            yield start, j, match_close(self.m, j)

    def find_owner_blocks(self, owner: str):
        """impl blocks (inherent or trait impls) whose self type is `owner`,
        or the `trait owner` block."""
        res = []
        for s, o, c in self.blocks(r'(?m)^(?:pub(?:\([a-z]+\))?\s+)?(?:unsafe\s+)?impl\b'):
            header = self.m[s:o]
            header = re.sub(r'\bwhere\b.*', '', header, flags=re.S)
            # strip leading impl<...>
            h = header[header.index('impl') + 4:].lstrip()
            if h.startswith('<'):
                d, k = 0, 0
                for k, ch in enumerate(h):
                    if ch == '<':
                        d += 1
                    elif ch == '>':
                        d -= 1
                        if d == 0:
                            break
                h = h[k + 1:]
            if re.search(r'\bfor\b', h):
                trait_part, self_ty = re.split(r'\bfor\b', h, 1)
            else:
                trait_part, self_ty = '', h
            self_ty = self_ty.strip()
            name = re.match(r'(?:&mut\s+|&\s*)?([A-Za-z_][A-Za-z0-9_:]*)', self_ty)
            if name and name.group(1).split('::')[-1] == owner:
                res.append((s, o, c, trait_part.strip()))
        for s, o, c in self.blocks(r'(?m)^(?:pub(?:\([a-z]+\))?\s+)?trait\s+' + re.escape(owner) + r'\b'):
            res.append((s, o, c, ''))
        return res

    def find_fn(self, owner: str, name: str, trait_hint: str = None):
        """Locate `fn name` inside a block of `owner` (or free fn when owner is
        empty).  Returns dict(start, sig_end(body '{'), end(body '}'))."""
        cands = []
        if owner:
            blocks = self.find_owner_blocks(owner)
            if trait_hint is not None:
                blocks = [b for b in blocks if re.match(re.escape(trait_hint) + r'\b', b[3].replace('codeq::', '').replace('io::', ''))] if trait_hint else [b for b in blocks if not b[3]]
            if not blocks:
                raise LostAnchor('%s: no impl/trait block for %s' % (self.path, owner))
        else:
            blocks = [(0, -1, len(self.m), '')]
        for s, o, c, _t in blocks:
            for mt in re.finditer(r'\bfn\s+' + re.escape(name) + r'\b', self.m[o + 1:c]):
                pos = o + 1 + mt.start()
                # must be at depth 1 of the block
                if self._depth(o + 1, pos) != 0:
                    continue
                cands.append(pos)
        if not cands:
            raise LostAnchor('%s: fn %s::%s not found' % (self.path, owner, name))
        if len(cands) > 1:
            raise LostAnchor('%s: fn %s::%s ambiguous (%d)' % (self.path, owner, name, len(cands)))
        pos = cands[0]
        # body open brace: first '{' at depth 0 after the parameter list
        j = self.m.index('(', pos)
        j = match_close(self.m, j) + 1
        depth = 0
        while True:
            ch = self.m[j]
            if ch in '([':
                depth += 1
            elif ch in ')]':
                depth -= 1
            elif ch == '{' and depth == 0:
                break
            elif ch == ';' and depth == 0:
                raise LostAnchor('%s: fn %s::%s has no body' % (self.path, owner, name))
            j += 1
        body_open = j
        body_close = match_close(self.m, j)
        # item start: include qualifiers (pub, pub(crate), const, async) on the same logical item
        k = pos
        pre = self.m[:k]
        mq = re.search(r'((?:pub(?:\([a-z]+\))?\s+)?(?:const\s+)?(?:unsafe\s+)?)$', pre)
        start = k - len(mq.group(1)) if mq else k
        return dict(start=start, fn_kw=pos, body_open=body_open, body_close=body_close)

    def _depth(self, a: int, b: int) -> int:
        d = 0
        for ch in self.m[a:b]:
            if ch in OPEN:
                d += 1
            elif ch in CLOSE:
                d -= 1
        return d

    def find_item(self, kind: str, name: str):
        """struct/enum definition: returns (start, end) covering `pub struct X ... {..}` or `...;`"""
        mt = re.search(r'(?m)^(?:pub(?:\([a-z]+\))?\s+)?' + kind + r'\s+' + re.escape(name) + r'\b', self.m)
        if not mt:
            raise LostAnchor('%s: %s %s not found' % (self.path, kind, name))
        j = mt.end()
        depth = 0
        while True:
            ch = self.m[j]
            if ch == '(':
                j = match_close(self.m, j)
            elif ch == '{' and depth == 0:
                return mt.start(), match_close(self.m, j) + 1
            elif ch == ';' and depth == 0:
                return mt.start(), j + 1
            j += 1
