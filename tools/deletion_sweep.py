#!/usr/bin/env python3
"""tools/deletion_sweep.py [-jN] [--limit K] — sensitivity sweep of the machinery itself (not a registered check).

For every function under contract, every single-line call statement (`a.b(c)?;`, `f(x);`) or plain assignment (`x.y = e;`, `n += e;`)
in its body is deleted, one at a time, on a scratch copy of /repo, and every claimed check is asked about the result (one Verus run per
unit thanks to VERIF_UNIT_CACHE).  Output: one line per deletion with the verdicts; deletions after which EVERY check still exits 0 are the
interesting ones — either the statement is irrelevant to all properties (logging, debug counters) or a contract is missing.
Results go to /verif/seeded/_deletion_sweep.json."""
import json, os, re, shutil, subprocess, sys, tempfile
from concurrent.futures import ThreadPoolExecutor
sys.path.insert(0, '/verif')
from vf import gen  # noqa

ROOT = '/verif'
args = sys.argv[1:]
jobs, limit = 2, None
while args:
    a = args.pop(0)
    if a.startswith('-j'):
        jobs = int(a[2:])
    elif a == '--limit':
        limit = int(args.pop(0))
claimed = [c['property_id'] for c in json.load(open(os.path.join(ROOT, 'MANIFEST.json')))['checks']]

# functions under contract and their source line ranges
fns = {}
for u in sorted(os.listdir(os.path.join(ROOT, 'units'))):
    if not u.endswith('.vt'):
        continue
    g = gen.Generator(os.path.join(ROOT, 'units', u))
    g.run()
    for f in g.fns:
        if f.get('known') or f.get('reach') or f['mode'] == 'external_body' or not f.get('src_lines') or not str(f.get('src', '')).startswith('src/'):
            continue
        fns[(f['src'], f['qual'])] = f['src_lines']

CALL = re.compile(r'^\s*(?!let\b|return\b|if\b|while\b|for\b|match\b|//)[\w\.\:\[\]&\*<>]+(\(.*\))+\??;\s*$')
ASSIGN = re.compile(r'^\s*(?!let\b)[\w\.\[\]\*]+\s*(\+|-|\*)?=\s*[^=].*;\s*$')
SKIP = re.compile(r'^\s*(log::|info!|debug!|warn!|error!|trace!|debug_assert|println!)')
cands = []
for (src, qual), (a, b) in sorted(fns.items()):
    lines = open(os.path.join('/repo', src)).read().split('\n')
    for ln in range(a, b - 1):
        t = lines[ln]
        if SKIP.match(t):
            continue
        if CALL.match(t) or ASSIGN.match(t):
            cands.append((src, qual, ln + 1, t.strip()))
if limit:
    cands = cands[:limit]
print('%d deletion candidates in %d functions' % (len(cands), len(fns)), flush=True)


def one(c):
    src, qual, ln, text = c
    d = tempfile.mkdtemp(prefix='vdel.')
    try:
        subprocess.run('git ls-files | rsync -a --files-from=- . %s/' % d, shell=True, cwd='/repo', check=True)
        p = os.path.join(d, src)
        lines = open(p).read().split('\n')
        assert lines[ln - 1].strip() == text
        lines[ln - 1] = ''
        open(p, 'w').write('\n'.join(lines))
        env = dict(os.environ, VERIF_REPO=d, VERIF_EVIDENCE_DIR=os.path.join(d, '.ev'), VERIF_UNIT_CACHE=os.path.join(d, '.uc'), VERIF_NO_KANI='1')
        res = {}
        for pr in claimed:
            q = subprocess.run(['./check', pr], cwd=ROOT, env=env, capture_output=True, text=True)
            res[pr] = q.returncode
        viol = [k for k, v in res.items() if v == 1]
        und = [k for k, v in res.items() if v == 2]
        row = dict(src=src, fn=qual, line=ln, text=text, violation_in=viol, undecided_in=und, silent=(not viol and not und))
        print('%s:%d %-40s %s | viol=%s undec=%s%s' % (src.replace('src/', ''), ln, qual, text[:60], ','.join(viol), ','.join(und), '  <== SILENT' if row['silent'] else ''), flush=True)
        return row
    finally:
        shutil.rmtree(d, ignore_errors=True)


with ThreadPoolExecutor(max_workers=jobs) as ex:
    rows = list(ex.map(one, cands))
json.dump(dict(note=__doc__, rows=rows), open(os.path.join(ROOT, 'seeded', '_deletion_sweep.json'), 'w'), indent=1)
print('silent: %d of %d' % (sum(1 for r in rows if r['silent']), len(rows)))
