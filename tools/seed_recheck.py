#!/usr/bin/env python3
"""tools/seed_recheck.py [-jN] [id ...] — re-run every claimed check against each kept seeded change (scratch copy of /repo + patch) and update meta.json"""
import json, os, shutil, subprocess, sys, tempfile
from concurrent.futures import ThreadPoolExecutor
ROOT = '/verif'
args = sys.argv[1:]
jobs = 1
if args and args[0].startswith('-j'):
    jobs = int(args[0][2:]); args = args[1:]
RUN_ROOT = ROOT
if args and args[0] == '--snapshot':
    # run the checks from a frozen copy of /verif so that the templates can be edited meanwhile; results are still written to /verif/seeded
    args = args[1:]
    RUN_ROOT = '/tmp/verif_snapshot'
    shutil.rmtree(RUN_ROOT, ignore_errors=True)
    subprocess.run('rsync -a --exclude .git --exclude gen --exclude replays --exclude evidence %s/ %s/' % (ROOT, RUN_ROOT), shell=True, check=True)
ids = args or sorted(i for i in os.listdir(os.path.join(ROOT, 'seeded')) if not i.startswith('_'))
claimed = [c['property_id'] for c in json.load(open(os.path.join(ROOT, 'MANIFEST.json')))['checks']]


def one(sid):
    d0 = os.path.join(ROOT, 'seeded', sid)
    if not os.path.exists(os.path.join(d0, 'patch.diff')):
        return
    meta = json.load(open(os.path.join(d0, 'meta.json')))
    d = tempfile.mkdtemp(prefix='vseed.')
    subprocess.run('git ls-files | rsync -a --files-from=- . %s/' % d, shell=True, cwd='/repo', check=True)
    p = subprocess.run('patch -s -p1 < %s' % os.path.join(d0, 'patch.diff'), shell=True, cwd=d, capture_output=True, text=True)
    if p.returncode != 0:
        print(sid, 'PATCH DOES NOT APPLY', p.stdout, p.stderr)
        shutil.rmtree(d)
        return
    res = {}
    env = dict(os.environ, VERIF_REPO=d, VERIF_EVIDENCE_DIR='/tmp/vseed_evidence_' + sid, VERIF_UNIT_CACHE=os.path.join(d, '.unit_cache'), VERIF_NO_KANI='1')
    for pr in claimed:
        q = subprocess.run(['./check', pr], cwd=RUN_ROOT, env=env, capture_output=True, text=True)
        res[pr] = dict(exit=q.returncode, lines=[l for l in q.stdout.split('\n') if l.startswith('VIOLATION') or l.startswith('UNDECIDED')][:6])
    shutil.rmtree(d)
    shutil.rmtree('/tmp/vseed_evidence_' + sid, ignore_errors=True)
    meta['checks'] = res
    meta['detected_by'] = [p_ for p_, r in res.items() if r['exit'] == 1]
    meta['undecided_in'] = [p_ for p_, r in res.items() if r['exit'] == 2]
    meta['detected_for_target'] = res.get(meta['breaks_property'], {}).get('exit') == 1
    json.dump(meta, open(os.path.join(d0, 'meta.json'), 'w'), indent=1)
    print(sid, 'confirmed=%s' % meta.get('confirmed'), 'target=%s' % meta['detected_for_target'], 'by=%s' % meta['detected_by'], 'undecided=%s' % meta['undecided_in'], flush=True)


with ThreadPoolExecutor(max_workers=jobs) as ex:
    list(ex.map(one, ids))
