#!/usr/bin/env python3
"""tools/seed_recheck.py [id ...] — re-run every claimed check against each kept seeded change (scratch copy of /repo + patch) and update meta.json"""
import json, os, shutil, subprocess, sys, tempfile
ROOT = '/verif'
ids = sys.argv[1:] or sorted(i for i in os.listdir(os.path.join(ROOT, 'seeded')) if not i.startswith('_'))
claimed = [c['property_id'] for c in json.load(open(os.path.join(ROOT, 'MANIFEST.json')))['checks']]
rows = []
for sid in ids:
    d0 = os.path.join(ROOT, 'seeded', sid)
    if not os.path.exists(os.path.join(d0, 'patch.diff')):
        continue
    meta = json.load(open(os.path.join(d0, 'meta.json')))
    d = tempfile.mkdtemp(prefix='vseed.')
    subprocess.run('git ls-files | rsync -a --files-from=- . %s/' % d, shell=True, cwd='/repo', check=True)
    p = subprocess.run('patch -s -p1 < %s' % os.path.join(d0, 'patch.diff'), shell=True, cwd=d, capture_output=True, text=True)
    if p.returncode != 0:
        print(sid, 'PATCH DOES NOT APPLY', p.stdout, p.stderr)
        shutil.rmtree(d)
        continue
    res = {}
    env = dict(os.environ, VERIF_REPO=d, VERIF_EVIDENCE_DIR='/tmp/vseed_evidence')
    for pr in claimed:
        q = subprocess.run(['./check', pr], cwd=ROOT, env=env, capture_output=True, text=True)
        res[pr] = dict(exit=q.returncode, lines=[l for l in q.stdout.split('\n') if l.startswith('VIOLATION') or l.startswith('UNDECIDED')][:6])
    shutil.rmtree(d)
    meta['checks'] = res
    meta['detected_by'] = [p_ for p_, r in res.items() if r['exit'] == 1]
    meta['undecided_in'] = [p_ for p_, r in res.items() if r['exit'] == 2]
    meta['detected_for_target'] = res.get(meta['breaks_property'], {}).get('exit') == 1
    json.dump(meta, open(os.path.join(d0, 'meta.json'), 'w'), indent=1)
    rows.append((sid, meta.get('confirmed'), meta['detected_for_target'], meta['detected_by'], meta['undecided_in']))
    print(sid, 'confirmed=%s' % meta.get('confirmed'), 'target=%s' % meta['detected_for_target'], 'by=%s' % meta['detected_by'], 'undecided=%s' % meta['undecided_in'])
