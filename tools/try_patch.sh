#!/bin/sh
# usage: tools/try_patch.sh <patch file | -R:<commit>> <prop>...   — run checks against a scratch copy of /repo with the patch applied
set -e
P="$1"; shift
D=$(mktemp -d /tmp/vmut.XXXXXX)
( cd /repo && git ls-files | rsync -a --files-from=- . "$D"/ )
case "$P" in
  -R:*) ( cd /repo && git show "${P#-R:}" ) | ( cd "$D" && patch -s -R -p1 ) ;;
  *) ( cd "$D" && patch -s -p1 < "$P" ) ;;
esac
cd /verif
for p in "$@"; do VERIF_REPO="$D" ./check "$p" || true; done
rm -rf "$D"
