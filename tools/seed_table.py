#!/usr/bin/env python3
"""tools/seed_table.py — prints the markdown table of DESIGN.md section 12 from /verif/seeded/*/meta.json"""
import json, os, re, sys, io
ROOT = '/verif/seeded'
rows = []
for sid in sorted(i for i in os.listdir(ROOT) if not i.startswith('_')):
    p = os.path.join(ROOT, sid, 'meta.json')
    if not os.path.exists(p):
        continue
    m = json.load(open(p))
    diff = open(os.path.join(ROOT, sid, 'patch.diff')).read()
    files = sorted(set(re.findall(r'^\+\+\+ b/(\S+)', diff, re.M)))
    what = m.get('summary') or ''
    by = m.get('detected_by', [])
    und = m.get('undecided_in', [])
    tgt = m['breaks_property']
    verdict = 'caught' if m.get('detected_for_target') else ('caught by ' + ','.join(by) if by else ('undecided (' + ','.join(und) + ')' if und else 'MISSED'))
    obl = []
    for pr in ([tgt] + [b for b in by if b != tgt]):
        for l in m.get('checks', {}).get(pr, {}).get('lines', []):
            mt = re.search(r'replays/[^/]+/(?:[A-Z0-9_]+\.)?(U\d+_\w+?\.[^ ]+?)\.json', l)
            if mt and len(obl) < 2:
                obl.append(mt.group(1).replace('_', ' ', 0))
            mb = re.search(r'replays/[^/]+/[A-Z0-9]+\.(bounded\.\w+)\.json', l)
            if mb and len(obl) < 2:
                obl.append(mb.group(1) + ' (bounded stand-in, not a proof obligation)')
    rows.append((sid, tgt, ', '.join(f.replace('src/', '') for f in files), verdict, ', '.join(by), '; '.join(obl)[:150], what))
_buf = io.StringIO()
_out = sys.stdout
sys.stdout = _buf
print('| seed | breaks | file(s) | verdict for the target property | every check that fired | first failing obligation(s) |')
print('|---|---|---|---|---|---|')
for r in rows:
    print('| %s | %s | %s | %s | %s | %s |' % r[:6])
n = len(rows); c = sum(1 for r in rows if r[3] == 'caught'); o = sum(1 for r in rows if r[3].startswith('caught by')); u = sum(1 for r in rows if r[3].startswith('undecided')); m_ = sum(1 for r in rows if r[3] == 'MISSED')
print('\n%d seeded changes: %d caught by the target property\'s check, %d caught only by another property\'s check, %d undecided (exit 2), %d missed (exit 0).' % (n, c, o, u, m_))

sys.stdout = _out
text = _buf.getvalue()
if '--write' in sys.argv:
    p = '/verif/DESIGN.md'
    d = open(p).read()
    a = d.index('<!-- SEED-TABLE-BEGIN -->') + len('<!-- SEED-TABLE-BEGIN -->')
    b = d.index('<!-- SEED-TABLE-END -->')
    open(p, 'w').write(d[:a] + '\n' + text + d[b:])
    print('DESIGN.md section 12 table rewritten (%d rows)' % len(rows))
else:
    print(text)
