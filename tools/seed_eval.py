#!/usr/bin/env python3
"""tools/seed_eval.py <src dir with patch.diff demo.rs notes.md> <seed id> <property> [--no-confirm]
Confirms a seeded change on a scratch copy of /repo (suite passes with it, demo fails with it, demo passes without it),
runs every claimed check against it, and stores it under /verif/seeded/<id>/ with meta.json."""
import json, os, re, shutil, subprocess, sys, tempfile, time

src, sid, prop = sys.argv[1], sys.argv[2], sys.argv[3]
confirm = '--no-confirm' not in sys.argv
run_checks = '--no-checks' not in sys.argv   # --no-checks: only confirm and store; tools/seed_recheck.py fills in the check results
ROOT = '/verif'
TARGET = os.environ.get('VERIF_SEED_TARGET', '/tmp/verif_seed_target')

def sh(cmd, cwd=None, env=None, timeout=1800):
    e = dict(os.environ)
    e.update(env or {})
    p = subprocess.run(cmd, shell=True, cwd=cwd, env=e, capture_output=True, text=True, timeout=timeout)
    return p.returncode, p.stdout + p.stderr

def scratch(with_patch, with_demo):
    d = tempfile.mkdtemp(prefix='vseed.')
    sh('git ls-files | rsync -a --files-from=- . %s/' % d, cwd='/repo')
    if with_patch:
        rc, out = sh('git apply --unsafe-paths --directory=%s %s' % (d, os.path.join(src, 'patch.diff')), cwd='/')
        if rc != 0:
            rc, out = sh('patch -s -p1 < %s' % os.path.join(src, 'patch.diff'), cwd=d)
            if rc != 0:
                raise SystemExit('patch does not apply: ' + out)
    if with_demo:
        shutil.copy(os.path.join(src, 'demo.rs'), os.path.join(d, 'src/tests/test_demo_seed.rs'))
        open(os.path.join(d, 'src/tests/mod.rs'), 'a').write('\nmod test_demo_seed;\n')
    return d

meta = dict(id=sid, breaks_property=prop, source='fresh sub-agent given only the property text and its own scratch worktree', ran=[])
notes = open(os.path.join(src, 'notes.md')).read() if os.path.exists(os.path.join(src, 'notes.md')) else ''
meta['needs_to_manifest'] = notes[:3000]
env = dict(CARGO_TARGET_DIR=TARGET, CARGO_NET_OFFLINE='true')
if confirm:
    d = scratch(True, False)
    rc, out = sh('cargo test --workspace --no-fail-fast --offline 2>&1 | grep -E "^test result|FAILED|failed" ', cwd=d, env=env)
    suite_ok = 'FAILED' not in out and 'failed;' in out and not re.search(r'[1-9]\d* failed', out)
    meta['ran'].append(dict(cmd='cargo test --workspace --no-fail-fast --offline (with patch)', ok=suite_ok, tail=out[-600:]))
    shutil.rmtree(d)
    d = scratch(True, True)
    rc, out = sh('cargo test --offline --lib test_demo_seed 2>&1 | tail -30', cwd=d, env=env)
    demo_fails = bool(re.search(r'[1-9]\d* failed', out)) or 'panicked' in out
    meta['ran'].append(dict(cmd='cargo test --lib test_demo_seed (with patch + demo)', demo_fails=demo_fails, tail=out[-800:]))
    shutil.rmtree(d)
    d = scratch(False, True)
    rc, out = sh('cargo test --offline --lib test_demo_seed 2>&1 | tail -15', cwd=d, env=env)
    demo_passes = bool(re.search(r'test result: ok\. [1-9]', out))
    meta['ran'].append(dict(cmd='cargo test --lib test_demo_seed (demo only, unchanged source)', demo_passes=demo_passes, tail=out[-500:]))
    shutil.rmtree(d)
    meta['confirmed'] = bool(suite_ok and demo_fails and demo_passes)
# run the checks
d = scratch(True, False)
claimed = [c['property_id'] for c in json.load(open(os.path.join(ROOT, 'MANIFEST.json')))['checks']]
res = {}
for p in (claimed if run_checks else []):
    rc, out = sh('./check %s' % p, cwd=ROOT, env=dict(VERIF_REPO=d, VERIF_EVIDENCE_DIR='/tmp/vseed_evidence_' + sid))
    res[p] = dict(exit=rc, lines=[l for l in out.split('\n') if l.startswith('VIOLATION') or l.startswith('UNDECIDED')][:6])
shutil.rmtree(d)
meta['checks'] = res
meta['detected_by'] = [p for p, r in res.items() if r['exit'] == 1]
meta['detected_for_target'] = res.get(prop, {}).get('exit') == 1
out_dir = os.path.join(ROOT, 'seeded', sid)
os.makedirs(out_dir, exist_ok=True)
shutil.copy(os.path.join(src, 'patch.diff'), out_dir)
shutil.copy(os.path.join(src, 'demo.rs'), out_dir)
json.dump(meta, open(os.path.join(out_dir, 'meta.json'), 'w'), indent=1)
print(sid, 'confirmed=%s' % meta.get('confirmed'), 'detected_by=%s' % meta['detected_by'], 'target(%s)=%s' % (prop, meta['detected_for_target']))
