//! Kani harnesses injected (as `#[cfg(kani)] mod verif_kani;`) into a scratch copy of the real crate.
//! Role (DESIGN 7): produce a CONCRETE failing input for an obligation Verus rejected in one of the functions below
//! (Verus gives no counterexample).  Each harness is loop-free over full-domain symbolic inputs, i.e. a complete
//! check for the monomorphic instance LogId = Vote = (u64, u64) (lexicographic order), UserData = u8.
//! Inputs are drawn as flat primitives in a fixed order (see `SCHEMA` in vf/kani.py) so the concrete-playback
//! byte vectors can be decoded without Kani at replay time.
use crate::raft_log::state_machine::raft_log_state::RaftLogState;
use crate::raft_log::wal::wal_record::WALRecord;
use crate::Types;

#[derive(Debug, Clone, PartialEq, Eq, Default)]
pub(crate) struct KTypes;
pub(crate) struct NoCb;
impl crate::Callback for NoCb { fn send(self, _res: Result<(), std::io::Error>) {} }
impl Types for KTypes {
    type LogId = (u64, u64);
    type LogPayload = u8;
    type Vote = (u64, u64);
    type Callback = NoCb;
    type UserData = u8;
    fn log_index(log_id: &Self::LogId) -> u64 { log_id.1 }
    fn payload_size(payload: &Self::LogPayload) -> u64 { *payload as u64 }
}

fn opt(has: bool, a: u64, b: u64) -> Option<(u64, u64)> { if has { Some((a, b)) } else { None } }

/// 13 primitives: vote(has,a,b) last(has,a,b) committed(has,a,b) purged(has,a,b) user_data(has)
fn any_state() -> RaftLogState<KTypes> {
    let v = opt(kani::any(), kani::any(), kani::any());
    let l = opt(kani::any(), kani::any(), kani::any());
    let c = opt(kani::any(), kani::any(), kani::any());
    let p = opt(kani::any(), kani::any(), kani::any());
    let u: bool = kani::any();
    RaftLogState { vote: v, last: l, committed: c, purged: p, user_data: if u { Some(7u8) } else { None } }
}
fn idx_ok(o: &Option<(u64, u64)>) -> bool { o.map(|l| l.1 < u64::MAX).unwrap_or(true) }

// ---- reference steps (the same oracle as prelude/state.rs, on the concrete instance) ----
fn vote_accepts(s: &RaftLogState<KTypes>, v: (u64, u64)) -> bool { Some(v) >= s.vote }
fn append_accepts(s: &RaftLogState<KTypes>, id: (u64, u64)) -> bool { !(Some(id) <= s.last) && (s.last.is_none() || s.last.unwrap().1 + 1 == id.1) }
fn commit_accepts(s: &RaftLogState<KTypes>, id: (u64, u64)) -> bool { !(Some(id) < s.committed) }

#[kani::proof]
fn k_update_vote() {
    let mut s = any_state();
    let old = s.clone();
    let v: (u64, u64) = (kani::any(), kani::any());
    let r = s.update_vote(&v);
    assert!(r.is_err() == !vote_accepts(&old, v));
    if r.is_err() { assert!(s == old); } else { assert!(s == RaftLogState { vote: Some(v), ..old }); }
}
#[kani::proof]
fn k_append() {
    let mut s = any_state();
    let old = s.clone();
    let id: (u64, u64) = (kani::any(), kani::any());
    kani::assume(idx_ok(&old.last));
    let r = s.append(&id);
    assert!(r.is_err() == !append_accepts(&old, id));
    if r.is_err() { assert!(s == old); } else { assert!(s == RaftLogState { last: Some(id), ..old }); }
}
#[kani::proof]
fn k_commit() {
    let mut s = any_state();
    let old = s.clone();
    let id: (u64, u64) = (kani::any(), kani::any());
    let r = s.commit(&id);
    assert!(r.is_err() == !commit_accepts(&old, id));
    if r.is_err() { assert!(s == old); } else { assert!(s == RaftLogState { committed: Some(id), ..old }); }
}
#[kani::proof]
fn k_truncate_after() {
    let mut s = any_state();
    let old = s.clone();
    let p = opt(kani::any(), kani::any(), kani::any());
    let r = s.truncate_after(p.as_ref());
    assert!(r.is_ok());
    let want = if p < old.last { p } else { old.last };
    assert!(s == RaftLogState { last: want, ..old });
}
#[kani::proof]
fn k_purge() {
    let mut s = any_state();
    let old = s.clone();
    let id: (u64, u64) = (kani::any(), kani::any());
    let r = s.purge(&id);
    assert!(r.is_ok());
    let np = if old.purged < Some(id) { Some(id) } else { old.purged };
    let nl = if old.last < Some(id) { Some(id) } else { old.last };
    assert!(s == RaftLogState { purged: np, last: nl, ..old });
}
#[kani::proof]
fn k_next_log_index() {
    let id = opt(kani::any(), kani::any(), kani::any());
    let r = KTypes::next_log_index(id.as_ref());
    assert!(r == match id { Some(l) => l.1 + 1, None => 0 });
}

// NOTE (C12): a bounded round-trip harness over the real codec is not possible here: crc32fast's CPU feature detection executes
// `cpuid` through inline assembly, which Kani 0.68 does not support (tried: `TerminatorKind::InlineAsm is not currently supported`).
