//! BOUNDED stand-in (never counted as proved) for the one part of C11 that no contract here can reach:
//! `Config::chunk_file_name` / `Config::parse_chunk_file_name` / `num::format_pad_u64` (format!/str/char iterators:
//! outside Verus' reach; the full-domain Kani harness does not terminate, DESIGN E23).
//! Injected as `src/tests/test_verif_bounded.rs` into a scratch copy of the tree under check and run on the REAL functions.
//!
//! Stated bound: the finite set S of u64 offsets built below —
//!   0, 1, u64::MAX-1, u64::MAX; 2^k-1, 2^k, 2^k+1 for k in 0..64; 10^k-1, 10^k, 10^k+1 for k in 0..20;
//!   d*10^k for every digit d in 1..=9 and position k in 0..20 that fits u64 (every digit value at every position);
//!   999…9 and 1000…0 patterns of every length; and 200_000 values of a fixed 64-bit LCG (seed 0x9E3779B97F4A7C15).
//! Checked for every x in S (and for adjacent pairs of S in numeric order):
//!   (a) parse_chunk_file_name(chunk_file_name(x)) == Ok(x)                      [name <-> offset round trip]
//!   (b) the name is "r-" + 26 characters + ".wal"                                [fixed width for every u64]
//!   (c) x < y  ==>  chunk_file_name(x) < chunk_file_name(y) as strings           [name order == offset order]
//! and for malformed names derived from each of the first 400 names (a character dropped, a character doubled, wrong
//! prefix, wrong suffix): parse_chunk_file_name returns Err (no file that is not a chunk is taken for one).
use crate::chunk::chunk_id::ChunkId;
use crate::Config;

fn sample() -> Vec<u64> {
    let mut xs: Vec<u64> = vec![0, 1, u64::MAX - 1, u64::MAX];
    for k in 0..64u32 {
        let p = 1u64 << k;
        xs.push(p - 1);
        xs.push(p);
        xs.push(p.wrapping_add(1));
    }
    let mut t: u64 = 1;
    for _k in 0..20u32 {
        xs.push(t - 1);
        xs.push(t);
        xs.push(t + 1);
        for d in 1..=9u64 {
            if let Some(v) = t.checked_mul(d) {
                xs.push(v);
            }
        }
        match t.checked_mul(10) {
            Some(n) => t = n,
            None => break,
        }
    }
    let mut s: u64 = 0x9E37_79B9_7F4A_7C15;
    for i in 0..200_000u32 {
        s = s.wrapping_mul(6364136223846793005).wrapping_add(1442695040888963407);
        // spread over all magnitudes: shift by a varying amount
        xs.push(s >> (i % 64));
    }
    xs.sort();
    xs.dedup();
    xs
}

#[test]
fn verif_bounded_file_name_codec() {
    let xs = sample();
    let mut prev: Option<(u64, String)> = None;
    let mut n_malformed = 0usize;
    for (i, x) in xs.iter().copied().enumerate() {
        let name = Config::chunk_file_name(ChunkId(x));
        let back = Config::parse_chunk_file_name(&name);
        if back.as_ref().ok() != Some(&x) {
            println!("VERIF-BOUNDED-FAIL clause=round_trip x={} name={:?} parsed={:?}", x, name, back);
            panic!("file-name codec round trip");
        }
        if !(name.len() == 32 && name.starts_with("r-") && name.ends_with(".wal")) {
            println!("VERIF-BOUNDED-FAIL clause=fixed_width x={} name={:?}", x, name);
            panic!("file-name width");
        }
        if let Some((px, pname)) = &prev {
            if !(pname < &name) {
                println!("VERIF-BOUNDED-FAIL clause=name_order x={} y={} name_x={:?} name_y={:?}", px, x, pname, name);
                panic!("file-name order");
            }
        }
        if i < 400 {
            let mut bad: Vec<String> = vec![];
            bad.push(name[1..].to_string());
            bad.push(format!("x{}", &name[1..]));
            bad.push(name[..name.len() - 1].to_string());
            bad.push(format!("{}.tmp", name));
            let mid = 2 + (i % 26);
            bad.push(format!("{}{}", &name[..mid], &name[mid + 1..]));
            bad.push(format!("{}{}{}", &name[..mid], &name[mid..mid + 1], &name[mid..]));
            for b in bad {
                n_malformed += 1;
                if let Ok(v) = Config::parse_chunk_file_name(&b) {
                    println!("VERIF-BOUNDED-FAIL clause=malformed_name_rejected name={:?} parsed={}", b, v);
                    panic!("malformed file name accepted");
                }
            }
        }
        prev = Some((x, name));
    }
    println!("VERIF-BOUNDED-OK offsets={} malformed_names={}", xs.len(), n_malformed);
}
