use std::io;
use std::sync::Arc;
use std::sync::mpsc::{SyncSender, sync_channel};
use raft_log::api::raft_log_writer::RaftLogWriter;
use raft_log::{Config, RaftLog, Types};

#[derive(Debug, Clone, PartialEq, Eq, Default)]
struct TT;
impl Types for TT {
    type LogId = (u64, u64);
    type LogPayload = String;
    type Vote = (u64, u64);
    type UserData = String;
    type Callback = SyncSender<io::Result<()>>;
    fn log_index(l: &Self::LogId) -> u64 { l.1 }
    fn payload_size(p: &Self::LogPayload) -> u64 { p.len() as u64 }
}
fn flush(rl: &mut RaftLog<TT>) -> io::Result<()> {
    let (tx, rx) = sync_channel(1);
    rl.flush(Some(tx))?;
    rx.recv().unwrap()
}
fn main() -> io::Result<()> {
    let dir = std::env::args().nth(1).unwrap();
    let scenario = std::env::args().nth(2).unwrap();
    let cfg = Arc::new(Config { dir, chunk_max_records: Some(3), ..Default::default() });
    let mut rl = RaftLog::<TT>::open(cfg)?;
    let s = |x: &str| x.to_string();
    if scenario == "d7" {
        // chunk0 = State + 2 appends -> closes; tail of chunk0 + AppendFile queued; then flush
        rl.append([((1, 0), s("a")), ((1, 1), s("b")), ((1, 2), s("c"))])?;
        eprintln!("flush#1 -> {:?}", flush(&mut rl).map_err(|e| e.to_string()));
        rl.append([((1, 3), s("d"))])?;
        eprintln!("flush#2 -> {:?}", flush(&mut rl).map_err(|e| e.to_string()));
    } else {
        // d9: purge makes chunk0 removable; the sync of the purge record fails
        rl.append([((1, 0), s("a")), ((1, 1), s("b")), ((1, 2), s("c"))])?;
        eprintln!("flush#1 -> {:?}", flush(&mut rl).map_err(|e| e.to_string()));
        rl.purge((1, 1))?;
        eprintln!("flush#2 (purge) -> {:?}", flush(&mut rl).map_err(|e| e.to_string()));
        rl.wait_worker_idle();
        let mut names: Vec<_> = std::fs::read_dir(&rl.config().dir)?.map(|e| e.unwrap().file_name().into_string().unwrap()).collect();
        names.sort();
        eprintln!("files after failed purge flush: {:?}", names);
    }
    Ok(())
}
