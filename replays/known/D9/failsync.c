#define _GNU_SOURCE
#include <dlfcn.h>
#include <errno.h>
#include <stdlib.h>
#include <stdio.h>
#include <unistd.h>
#include <string.h>
static int calls = 0;
int fdatasync(int fd) {
    static int (*real)(int) = 0;
    if (!real) real = dlsym(RTLD_NEXT, "fdatasync");
    calls++;
    const char* s = getenv("FAIL_SYNC_NTH");
    int hit = 0; if (s) { char buf[128]; snprintf(buf, sizeof buf, ",%s,", s); char key[32]; snprintf(key, sizeof key, ",%d,", calls); hit = strstr(buf, key) != 0; }
    char path[256], link[256]; snprintf(link, sizeof link, "/proc/self/fd/%d", fd);
    ssize_t n = readlink(link, path, sizeof path - 1); if (n < 0) n = 0; path[n] = 0;
    if (hit) { fprintf(stderr, "[shim] fdatasync #%d on %s -> EIO\n", calls, path); errno = EIO; return -1; }
    fprintf(stderr, "[shim] fdatasync #%d on %s -> ok\n", calls, path);
    return real(fd);
}
int unlink(const char* p) {
    static int (*real)(const char*) = 0;
    if (!real) real = dlsym(RTLD_NEXT, "unlink");
    fprintf(stderr, "[shim] unlink %s\n", p);
    return real(p);
}
