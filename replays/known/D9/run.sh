#!/bin/sh
# usage: run.sh <scratch copy of the crate>   — replays known finding D9 with an LD_PRELOAD shim that fails chosen fdatasync calls.
# prints D9-REPRODUCED when a flush reported Err and the obsolete chunk file was unlinked anyway.
set -e
D="$1"; HERE="$(cd "$(dirname "$0")" && pwd)"
mkdir -p "$D/examples" && cp "$HERE/fault_example.rs" "$D/examples/verif_fault_example.rs"
gcc -shared -fPIC -o "$D/failsync.so" "$HERE/failsync.c" -ldl
( cd "$D" && CARGO_NET_OFFLINE=true cargo build --offline --example verif_fault_example >/dev/null 2>&1 )
BIN=$(find "${CARGO_TARGET_DIR:-$D/target}" -name verif_fault_example -type f -perm -u+x | head -1)
for n in 5 6 4 7; do
  W=$(mktemp -d)
  OUT=$(LD_PRELOAD="$D/failsync.so" FAIL_SYNC_NTH=$n "$BIN" "$W" d9 2>&1 || true)
  rm -rf "$W"
  if echo "$OUT" | grep -q 'flush#2 (purge) -> Err' && echo "$OUT" | grep -q '\[shim\] unlink'; then
    echo "D9-REPRODUCED fdatasync#$n failed, callback Err, yet:"; echo "$OUT" | grep -E 'flush#2|unlink|files after'; exit 0
  fi
done
echo "D9-NOT-REPRODUCED"; exit 1
