//! Replays of the recorded KNOWN FINDINGS against the real code (injected as src/tests/test_known_findings.rs into a scratch copy).
//! Each test PASSES while the defect is present (it asserts the defective behaviour), so a failing test here means the finding
//! no longer reproduces and its entry in /verif/known_findings.json should be revisited.
use std::io;
use crate::api::raft_log_writer::RaftLogWriter;
use crate::api::raft_log_writer::blocking_flush;
use crate::testing::ss;
use crate::tests::context::TestContext;

#[test]
fn kf_d6_index_max_overflow() -> Result<(), io::Error> {
    let ctx = TestContext::new()?;
    let mut rl = ctx.new_raft_log()?;
    rl.append([((1, u64::MAX), ss("a"))])?;
    let r = std::panic::catch_unwind(std::panic::AssertUnwindSafe(|| rl.append([((2, 0), ss("b"))]).map(|_| ())));
    assert!(r.is_err(), "D6: expected a panic (log_index + 1 overflows) but got {:?}", r.map(|x| x.map_err(|e| e.to_string())));
    Ok(())
}

#[test]
fn kf_d8_reappended_lower_term_entry_unreadable() -> Result<(), io::Error> {
    let mut ctx = TestContext::new()?;
    ctx.config.chunk_max_records = Some(4);
    ctx.config.log_cache_max_items = Some(0);
    let mut rl = ctx.new_raft_log()?;
    rl.append([((5, 0), ss("a0")), ((7, 1), ss("a1")), ((7, 2), ss("a2"))])?;
    blocking_flush(&mut rl)?;
    rl.wait_worker_idle();
    rl.truncate(1)?;
    rl.append([((6, 1), ss("b1"))])?;
    let got = rl.read(0, 10).map(|r| r.map_err(|e| e.to_string())).collect::<Vec<_>>();
    assert!(got.iter().any(|r| matches!(r, Err(e) if e.contains("Chunk not found"))), "D8: expected 'Chunk not found' for the live entry (6,1), got {:?}", got);
    Ok(())
}

#[test]
fn kf_d10_recordless_newest_chunk_panics_open() -> Result<(), io::Error> {
    let mut ctx = TestContext::new()?;
    ctx.config.chunk_max_records = Some(4);
    let end;
    {
        let mut rl = ctx.new_raft_log()?;
        rl.append([((5, 0), ss("a0")), ((7, 1), ss("a1"))])?;
        blocking_flush(&mut rl)?;
        end = rl.stat().open_chunk.global_end;
    }
    // crash right after create_new() of the next chunk, before its State record is written
    let p = ctx.config.chunk_path(crate::ChunkId(end));
    std::fs::File::create(&p)?;
    let r = std::panic::catch_unwind(std::panic::AssertUnwindSafe(|| ctx.new_raft_log().map(|_| ())));
    assert!(r.is_err(), "D10: expected open to panic in Chunk::last_segment, got {:?}", r.map(|x| x.map_err(|e| e.to_string())));
    Ok(())
}

#[test]
fn kf_d11_refused_open_truncates_a_middle_chunk() -> Result<(), io::Error> {
    use std::os::unix::fs::FileExt;
    let mut ctx = TestContext::new()?;
    ctx.config.chunk_max_records = Some(3);
    {
        let mut rl = ctx.new_raft_log()?;
        rl.append([((5, 0), ss("a0")), ((5, 1), ss("a1")), ((5, 2), ss("a2")), ((5, 3), ss("a3")), ((5, 4), ss("a4"))])?;
        blocking_flush(&mut rl)?;
    }
    let p = ctx.config.chunk_path(crate::ChunkId(0));
    let before = std::fs::metadata(&p)?.len();
    let f = std::fs::OpenOptions::new().read(true).write(true).open(&p)?;
    f.write_at(&[0x40], 18 + 20)?;
    let r = ctx.new_raft_log().map(|_| ()).map_err(|e| e.to_string());
    let after = std::fs::metadata(&p)?.len();
    assert!(r.is_err(), "D11: the open should be refused");
    assert!(after < before, "D11: expected the non-newest chunk to have been cut by the refused open (before={} after={})", before, after);
    Ok(())
}

#[test]
fn kf_d16_failed_batch_append_applies_a_prefix() -> Result<(), io::Error> {
    let ctx = TestContext::new()?;
    let mut rl = ctx.new_raft_log()?;
    let r = rl.append([((1, 0), ss("a")), ((1, 1), ss("b")), ((1, 1), ss("c"))]);
    assert!(r.is_err(), "D16: the third entry repeats a log id, the batch must be refused");
    let got = rl.read(0, 10).collect::<Result<Vec<_>, _>>()?;
    assert_eq!(got.len(), 2, "D16: expected the valid prefix to have been applied although the call returned Err, got {:?}", got);
    Ok(())
}

#[test]
fn kf_d13_obsolete_chunk_is_never_removed() -> Result<(), io::Error> {
    let mut ctx = TestContext::new()?;
    ctx.config.chunk_max_records = Some(4);
    let mut rl = ctx.new_raft_log()?;
    rl.append([((5, 0), ss("a0")), ((5, 1), ss("a1")), ((5, 2), ss("a2"))])?; // chunk 0 closes, recorded last = (5,2)
    rl.truncate(1)?;
    rl.append([((5, 1), ss("b1"))])?;
    rl.purge((5, 1))?; // everything is purged now
    blocking_flush(&mut rl)?;
    rl.wait_worker_idle();
    let closed = rl.stat().closed_chunks.iter().map(|c| c.global_start).collect::<Vec<_>>();
    assert!(closed.contains(&0), "D13: expected the obsolete first chunk to be still present after purge+flush+idle, closed chunks: {:?}", closed);
    Ok(())
}

#[test]
fn kf_d12_corrupted_length_prefix_is_absorbed_as_a_torn_tail() -> Result<(), io::Error> {
    use std::os::unix::fs::FileExt;
    let ctx = TestContext::new()?;
    {
        let mut rl = ctx.new_raft_log()?;
        rl.append([((5, 0), ss("a0")), ((5, 1), ss("a1")), ((5, 2), ss("a2"))])?;
        blocking_flush(&mut rl)?;
    }
    let p = ctx.config.chunk_path(crate::ChunkId(0));
    let f = std::fs::OpenOptions::new().read(true).write(true).open(&p)?;
    // record 0: State (18 bytes); record 1 = Append at 18: tag(4) log id(16) payload length(4) => length prefix at 18+20
    f.write_at(&[0x40], 18 + 20)?;
    let rl = ctx.new_raft_log();
    assert!(rl.is_ok(), "D12: expected open to SUCCEED although a byte of a complete, flushed record was altered");
    let rl = rl?;
    let got = rl.read(0, 10).collect::<Result<Vec<_>, _>>()?;
    assert!(got.is_empty(), "D12: expected the three flushed entries to be silently gone, got {:?}", got);
    Ok(())
}
